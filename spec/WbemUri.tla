------------------------------ MODULE WbemUri ------------------------------
(***************************************************************************)
(* C07: untyped WBEM URIs (DSP0207) of CIM instance / class paths.         *)
(*                                                                         *)
(* Text is a sequence of SYMBOLS.  One symbol = one character class or one *)
(* atomic lexeme whose inner structure is irrelevant for the grammar:      *)
(*   letters   "a" "A" "b" "B"   (two bases x lower / not-lower case)      *)
(*             "h" "H"           (a hexadecimal letter a-f, lower / upper; *)
(*                                used in IP literal hosts)                *)
(*   digits    "N<decimal>"      (digit strings; identity = the number)    *)
(*   words     "T" "F" "INF" "NAN"  (TRUE FALSE INF NAN, any case)         *)
(*   lexemes   "ex" "ex2" (exponent suffixes e+20 / e-07: the two signs    *)
(*             python's repr() prints); 25 char CIM datetimes (DSP0004     *)
(*             5.2.4), one lexeme per {timestamp, interval} x {all fields  *)
(*             digits, reduced precision = '*' in the least significant    *)
(*             fields}: "DT" "DI" (full) "DTs" "DIs" (with asterisks)      *)
(*   punctuation "sl" / "col" : "dot" . "eq" = "com" , "dq" double quote   *)
(*             "sq" single quote "bs" backslash "lf" newline "sp" space    *)
(*             "mi" - "lb" [ "rb" ] "at" @ "ot" (any other character)      *)
(*             "pz" the percent-encoded zone delimiter %25 of an IPv6      *)
(*             literal with a zone ID (RFC 6874; documented host form)     *)
(*                                                                         *)
(* PrintU(V,p,fmt), ParseInst(V,text), ParseClass(V,text) are transcribed   *)
(* from CIMInstanceName/CIMClassName.to_wbem_uri / from_wbem_uri, the      *)
(* WBEM_URI_*_REGEXP patterns, _kbstr_to_cimval and the DSP0004 literal    *)
(* grammars of _utils.py.  V is a record of design switches: VFixed is the *)
(* design for which the laws of the property hold; the other values are    *)
(* realistic wrong variants (several of them are what the pinned tree      *)
(* does) and are used as regression configurations that must fail.         *)
(*                                                                         *)
(* The requirement (event style, Fails/Apply) is at the end: it only uses  *)
(* the parser to decide which STRING values are exempt from the round trip *)
(* ("strings that read as datetimes or URIs"), with the most permissive    *)
(* variant, so that it never demands more than the statement.              *)
(***************************************************************************)
EXTENDS Naturals, Sequences, FiniteSets, TLC, SequencesExt, IOUtils

Rng(q) == {q[i] : i \in DOMAIN q}
F(name, holds) == IF holds THEN {} ELSE {name}
MinOf(S) == CHOOSE x \in S : \A y \in S : x <= y

(* ------------------------------ symbols -------------------------------- *)
Letters == {"a", "A", "b", "B", "h", "H"}
DigitToks == {"N0", "N1", "N5", "N127", "N128", "N255", "N32767", "N32768",
              "N65535", "N2147483647", "N2147483648", "N4294967295",
              "N9223372036854775807", "N9223372036854775808",
              "N18446744073709551615"}
OctalOk == {"N1", "N5", "N127", "N255", "N32767", "N65535"} \* digits 1-7 only
WordToks == {"T", "F", "INF", "NAN"}
DtFull == {"DT", "DI"}        \* timestamp / interval, every field digits
DtStar == {"DTs", "DIs"}      \* reduced precision: least significant fields
                              \*   (or digits of the microseconds) are '*'
DtToks == DtFull \cup DtStar
WordSyms == Letters \cup DigitToks \cup WordToks          \* \w
(* authority: [\w.:@\[\]] and the hyphen of DNS host names (RFC 1123);   *)
(* V.hosthyphen = "reject": the authority pattern has no '-'               *)
HostSyms(V) == WordSyms \cup {"dot", "col", "at", "lb", "rb"}
               \cup (IF V.hosthyphen = "ok" THEN {"mi"} ELSE {})
               \cup (IF V.hostzone = "ok" THEN {"pz"} ELSE {})
SchemeSyms == WordSyms \cup {"mi"}                        \* [\w\-]
Lower(c) == CASE c = "A" -> "a" [] c = "B" -> "b" [] c = "H" -> "h"
              [] OTHER -> c
LowerSeq(q) == [i \in DOMAIN q |-> Lower(q[i])]
NameEq(x, y) == LowerSeq(x) = LowerSeq(y)

(* ------------------------------ variants ------------------------------- *)
VFixed == [realprint |-> "float",   \* "repr": Real32/Real64 print debug repr
           realexp |-> "any",       \* "needsdot": REAL_VALUE wants a '.'
           lf |-> "ok",             \* "reject": '.+' does not match newline
           histcolon |-> "host",    \* "nsonly": historical //h/C (no colon)
           dt |-> "exact",          \* "prefix": CIMDateTime ignores a tail
           sort |-> "lowered",      \* "raw": keys sorted before lower-casing
           kbval |-> "plus",        \* "star": empty unquoted value matches
           canonval |-> "asis",     \* "lowered": canonical lowers strings
           hostcase |-> "all",      \* "dnsonly": canonical keeps the case of
                                    \*   a host that is an IP literal '[..]'
           expsign |-> "both",      \* "minus": REAL_VALUE exponent 'E-?'
                                    \*   (the '+' repr() prints is rejected)
           hosthyphen |-> "ok",     \* "reject": '-' is not in the authority
                                    \*   pattern: host 'my-host' is printed
                                    \*   but not accepted
           hostzone |-> "ok",       \* "reject": '%' is not in the authority
                                    \*   pattern: host '[fe80::1%25eth0]' (a
                                    \*   documented host form) is printed
                                    \*   but not accepted
           dtpre |-> "none",        \* "full": a double quoted value is only
                                    \*   tried as a datetime if it passes an
                                    \*   all-digits pre-check; reduced
                                    \*   precision datetimes stay strings
           charq |-> "dq",          \* "sqnoesc": char16-typed key values are
                                    \*   printed single quoted (charValue)
                                    \*   with the escaping of the string
                                    \*   branch (backslash, double quote):
                                    \*   the apostrophe itself prints '\'\'\'
           pcache |-> "none",       \* "setters": to_wbem_uri('canonical')
                                    \*   caches its text in the object; the
                                    \*   cache is cleared by the attribute
                                    \*   setters and path[k]=.. / del path[k]
                                    \*   only (not by changes made through
                                    \*   the keybindings dictionary or to a
                                    \*   referenced path object); see
                                    \*   WbemUriHeap (histories)
           cache |-> "none"]        \* "refs": reference key values parsed
                                    \*   through a cache keyed by their text
                                    \*   (equal text -> ONE shared object);
                                    \*   "all": from_wbem_uri itself cached
                                    \*   (only observable in a history of
                                    \*   calls, see WbemUriHeap/WbemUriHist)
(* most permissive parser (for "reads as a URI" in the requirement)        *)
VPerm == [VFixed EXCEPT !.dt = "prefix"]

(* regression variants (one switch each)                                  *)
VLegacyReal == [VFixed EXCEPT !.realprint = "repr"]
VLegacyExp == [VFixed EXCEPT !.realexp = "needsdot"]
VLegacyLf == [VFixed EXCEPT !.lf = "reject"]
VLegacyHist == [VFixed EXCEPT !.histcolon = "nsonly"]
VLegacyDt == [VFixed EXCEPT !.dt = "prefix"]
VSortRaw == [VFixed EXCEPT !.sort = "raw"]
VKbStar == [VFixed EXCEPT !.kbval = "star"]
VCanonVal == [VFixed EXCEPT !.canonval = "lowered"]
VHostLit == [VFixed EXCEPT !.hostcase = "dnsonly"]
VExpSign == [VFixed EXCEPT !.expsign = "minus"]
VDtPre == [VFixed EXCEPT !.dtpre = "full"]
VHostHyphen == [VFixed EXCEPT !.hosthyphen = "reject"]
VChar16Sq == [VFixed EXCEPT !.charq = "sqnoesc"]
VPrintCache == [VFixed EXCEPT !.pcache = "setters"]
VHostZone == [VFixed EXCEPT !.hostzone = "reject"]
VCacheRefs == [VFixed EXCEPT !.cache = "refs"]
VCacheAll == [VFixed EXCEPT !.cache = "all"]
(* variant chosen by environment (the harness probes the tree)             *)
Env(n) == n \in DOMAIN IOEnv /\ IOEnv[n] = "1"
VEnv == [VFixed EXCEPT
           !.realprint = IF Env("C07_REPRFLOAT") THEN "repr" ELSE @,
           !.realexp = IF Env("C07_NEEDSDOT") THEN "needsdot" ELSE @,
           !.lf = IF Env("C07_LFREJECT") THEN "reject" ELSE @,
           !.histcolon = IF Env("C07_HISTNOCOLON") THEN "nsonly" ELSE @,
           !.dt = IF Env("C07_DTPREFIX") THEN "prefix" ELSE @,
           !.hostcase = IF Env("C07_HOSTLIT") THEN "dnsonly" ELSE @,
           !.expsign = IF Env("C07_EXPMINUS") THEN "minus" ELSE @,
           !.dtpre = IF Env("C07_DTFULLONLY") THEN "full" ELSE @,
           !.hosthyphen = IF Env("C07_HOSTNOHYPHEN") THEN "reject" ELSE @,
           !.hostzone = IF Env("C07_HOSTNOZONE") THEN "reject" ELSE @,
           !.charq = IF Env("C07_CHAR16SQ") THEN "sqnoesc" ELSE @,
           !.pcache = IF Env("C07_PCACHE") THEN "setters" ELSE @,
           !.cache = IF Env("C07_CACHEALL") THEN "all"
                     ELSE IF Env("C07_CACHEREFS") THEN "refs" ELSE @]

(* ------------------------------ data ----------------------------------- *)
(* value: t in string char16 boolean int real datetime reference;          *)
(*   w = numeric width ("py" = plain python int/float, else uint8..real64);*)
(*   s = string content / literal symbols; r = <<nested path>> or <<>>     *)
Val(t, w, s, r) == [t |-> t, w |-> w, s |-> s, r |-> r]
NoVal == Val("none", "", <<>>, <<>>)
KB(k, v) == [k |-> k, v |-> v]
Path(kind, hashost, host, hasns, ns, cls, kb) ==
  [kind |-> kind, hashost |-> hashost, host |-> host, hasns |-> hasns,
   ns |-> ns, cls |-> cls, kb |-> kb]
NoPath == Path("none", FALSE, <<>>, FALSE, <<>>, <<>>, <<>>)
Res(ok, err, p) == [ok |-> ok, err |-> err, p |-> p]
Fail(err) == Res(FALSE, err, NoPath)

(* ------------------------------ printing ------------------------------- *)
Esc(q) == FlattenSeq([i \in DOMAIN q |->
             IF q[i] = "bs" THEN <<"bs", "bs">>
             ELSE IF q[i] = "dq" THEN <<"bs", "dq">> ELSE <<q[i]>>])
CaseOf(fmt, q) == IF fmt = "canonical" THEN LowerSeq(q) ELSE q

(* code point order of the concretisation: digits < upper case < lower case *)
(* (hex letters a-f precede the concrete letters chosen for a, b)            *)
Rank(c) == CASE c \in DigitToks -> 1 [] c = "H" -> 2 [] c = "A" -> 3
             [] c = "B" -> 4 [] c \in WordToks -> 5 [] c = "h" -> 6
             [] c = "a" -> 7 [] c = "b" -> 8 [] OTHER -> 0
RECURSIVE SeqLess(_, _)
SeqLess(x, y) == IF x = <<>> THEN y # <<>>
                 ELSE IF y = <<>> THEN FALSE
                 ELSE IF Rank(x[1]) # Rank(y[1]) THEN Rank(x[1]) < Rank(y[1])
                 ELSE SeqLess(Tail(x), Tail(y))
RECURSIVE InsertSk(_, _)
InsertSk(sorted, x) ==
  IF sorted = <<>> THEN <<x>>
  ELSE IF SeqLess(x.sk, sorted[1].sk) THEN <<x>> \o sorted
  ELSE <<sorted[1]>> \o InsertSk(Tail(sorted), x)
RECURSIVE SortBySk(_)
SortBySk(q) == IF q = <<>> THEN <<>> ELSE InsertSk(SortBySk(Tail(q)), q[1])
RECURSIVE Join(_)
Join(qs) == IF qs = <<>> THEN <<>>
            ELSE IF Len(qs) = 1 THEN qs[1]
            ELSE qs[1] \o <<"com">> \o Join(Tail(qs))

(* Real32(cimtype='real32', 1.5) - shape only: quotes, comma, blank         *)
ReprJunk(s) == <<"A", "ot", "a", "eq", "sq", "a", "sq", "com", "sp">> \o s
               \o <<"ot">>

(* host kinds: DNS name / IPv4 address (letters, digits, dots, port,        *)
(* userinfo) or IP literal in square brackets (IPv6: hex letters, colons).   *)
(* Both are case insensitive (path equality lower-cases the whole host).     *)
IsIpLiteral(host) == host # <<>> /\ host[1] = "lb"
CaseHost(V, fmt, host) ==
  IF V.hostcase = "dnsonly" /\ IsIpLiteral(host) THEN host
  ELSE CaseOf(fmt, host)

Header(V, p, fmt) ==
  (IF p.hashost /\ fmt # "cimobject"
   THEN <<"sl", "sl">> \o CaseHost(V, fmt, p.host) ELSE <<>>)
  \o (IF p.hashost \/ fmt \notin {"cimobject", "historical"}
      THEN <<"sl">> ELSE <<>>)
  \o (IF p.hasns THEN CaseOf(fmt, p.ns) ELSE <<>>)
  \o (IF p.hasns \/ fmt # "historical" \/
         (V.histcolon = "host" /\ p.hashost)
      THEN <<"col">> ELSE <<>>)
  \o CaseOf(fmt, p.cls)

RECURSIVE PrintU(_, _, _)
PrintVal(V, v, fmt) ==
  CASE v.t \in {"string", "char16"} ->
         IF v.t = "char16" /\ V.charq = "sqnoesc"
         THEN <<"sq">> \o Esc(v.s) \o <<"sq">>
         ELSE <<"dq">> \o Esc(IF V.canonval = "lowered" /\ fmt = "canonical"
                              THEN LowerSeq(v.s) ELSE v.s) \o <<"dq">>
    [] v.t \in {"boolean", "int"} -> v.s
    [] v.t = "real" -> IF V.realprint = "repr" /\ v.w # "py"
                       THEN ReprJunk(v.s) ELSE v.s
    [] v.t = "datetime" -> <<"dq">> \o v.s \o <<"dq">>
    [] v.t = "reference" -> <<"dq">> \o Esc(PrintU(V, v.r[1], fmt)) \o <<"dq">>
    [] OTHER -> <<"ot">>

PrintU(V, p, fmt) ==
  IF p.kind = "class" \/ p.kb = <<>> THEN Header(V, p, fmt)
  ELSE LET keyed == [i \in DOMAIN p.kb |->
                       [sk |-> IF V.sort = "lowered"
                               THEN CaseOf(fmt, p.kb[i].k) ELSE p.kb[i].k,
                        b |-> p.kb[i]]]
           srt == SortBySk(keyed)
       IN Header(V, p, fmt) \o <<"dot">> \o
          Join([i \in DOMAIN srt |->
                  CaseOf(fmt, srt[i].b.k) \o <<"eq">> \o
                  PrintVal(V, srt[i].b.v, fmt)])

Canon(V, p) == PrintU(V, p, "canonical")

(* ------------------------------ parsing -------------------------------- *)
At(t, i) == IF i >= 1 /\ i <= Len(t) THEN t[i] ELSE "EOT"
(* end of the maximal run of symbols in S starting at i (i-1 if empty)     *)
RunEnd(t, i, S) ==
  LET bad == {j \in i..Len(t) : t[j] \notin S}
  IN IF bad = {} THEN Len(t) ELSE MinOf(bad) - 1
RunEndNot(t, i, S) ==
  LET bad == {j \in i..Len(t) : t[j] \in S}
  IN IF bad = {} THEN Len(t) ELSE MinOf(bad) - 1
(* '$' also matches before one trailing newline                            *)
StripLf(t) == IF Len(t) > 0 /\ t[Len(t)] = "lf"
              THEN SubSeq(t, 1, Len(t) - 1) ELSE t

WellFormedNs(q) ==              \* words separated by single slashes
  /\ q # <<>> /\ q[1] # "sl" /\ q[Len(q)] # "sl"
  /\ \A i \in 1..(Len(q) - 1) : ~(q[i] = "sl" /\ q[i + 1] = "sl")

(* WBEM_URI_*PATH_REGEXP up to the class name:  optional scheme  [\w-]+ ':' *)
(* optional authority '//' [\w.:@[]-]* ; a '/' (optional only at the very  *)
(* start) ; optional namespace \w+ ('/' \w+)... ; a ':' (optional only at *)
(* the very start) ; class \w+ .  Each choice is forced by the next symbol *)
(* (see notes), so the backtracking regexp is a deterministic function.    *)
ParseHead(V, t) ==
  LET e1 == RunEnd(t, 1, SchemeSyms)
      scheme == e1 >= 1 /\ At(t, e1 + 1) = "col" /\ At(t, e1 + 2) = "sl"
      i0 == IF scheme THEN e1 + 2 ELSE 1
      auth == At(t, i0) = "sl" /\ At(t, i0 + 1) = "sl"
      he == RunEnd(t, i0 + 2, HostSyms(V))
      hostq == SubSeq(t, i0 + 2, he)
      authok == auth => At(t, he + 1) = "sl"
      i1 == IF auth THEN he + 2 ELSE IF At(t, i0) = "sl" THEN i0 + 1 ELSE i0
      slashok == auth \/ At(t, i0) = "sl" \/ i0 = 1
      bare == (i1 = 1)
      ne == RunEnd(t, i1, WordSyms \cup {"sl"})
      nsq == SubSeq(t, i1, ne)
      withns == ne >= i1 /\ At(t, ne + 1) = "col" /\ WellFormedNs(nsq)
      c0 == IF withns THEN ne + 2
            ELSE IF At(t, i1) = "col" THEN i1 + 1 ELSE i1
      colonok == withns \/ At(t, i1) = "col" \/ bare
      ce == RunEnd(t, c0, WordSyms)
  IN [ok |-> authok /\ slashok /\ colonok /\ ce >= c0,
      hashost |-> auth /\ hostq # <<>>,
      host |-> IF auth THEN hostq ELSE <<>>,
      hasns |-> withns, ns |-> IF withns THEN nsq ELSE <<>>,
      cls |-> SubSeq(t, c0, ce), next |-> ce + 1]

(* closing quote of a quoted value: backslash escapes any symbol except a  *)
(* newline; 0 = none                                                       *)
RECURSIVE ScanQ(_, _, _)
ScanQ(q, k, quote) ==
  IF k > Len(q) THEN 0
  ELSE IF q[k] = "bs"
       THEN (IF k + 1 > Len(q) \/ q[k + 1] = "lf" THEN 0
             ELSE ScanQ(q, k + 2, quote))
  ELSE IF q[k] = quote THEN k
  ELSE ScanQ(q, k + 1, quote)

(* WBEM_URI_KEYBINDINGS_REGEXP: key '=' VAL (',' key '=' VAL)... where VAL  *)
(* is double quoted, single quoted or a non-empty run without , " ' \     *)
(* result [ok, items: <<[k, q, body]>>]                                    *)
RECURSIVE SplitKbs(_, _, _)
SplitKbs(V, q, i) ==
  LET ke == RunEnd(q, i, WordSyms)
      j == ke + 2
      c == At(q, j)
      quoted == c \in {"dq", "sq"}
      close == IF quoted THEN ScanQ(q, j + 1, c) ELSE 0
      ue == RunEndNot(q, j, {"com", "dq", "sq", "bs"})
      ve == IF quoted THEN close ELSE ue
      okv == IF quoted THEN close # 0 ELSE (ue >= j \/ V.kbval = "star")
      item == [k |-> SubSeq(q, i, ke), q |-> IF quoted THEN c ELSE "un",
               body |-> IF quoted THEN SubSeq(q, j + 1, close - 1)
                        ELSE SubSeq(q, j, ue)]
      bad == [ok |-> FALSE, items |-> <<>>]
  IN IF ke < i \/ At(q, ke + 1) # "eq" \/ ~okv THEN bad
     ELSE IF ve = Len(q) THEN [ok |-> TRUE, items |-> <<item>>]
     ELSE IF At(q, ve + 1) = "com"
          THEN LET rest == SplitKbs(V, q, ve + 2)
               IN [ok |-> rest.ok, items |-> <<item>> \o rest.items]
     ELSE bad

(* unescape: backslash + symbol (not newline) -> symbol                    *)
RECURSIVE Unesc(_)
Unesc(q) == IF q = <<>> THEN <<>>
            ELSE IF q[1] = "bs" /\ Len(q) >= 2 /\ q[2] # "lf"
                 THEN <<q[2]>> \o Unesc(SubSeq(q, 3, Len(q)))
            ELSE <<q[1]>> \o Unesc(Tail(q))

IsDT(V, u) == IF V.dt = "exact" THEN Len(u) = 1 /\ u[1] \in DtToks
              ELSE u # <<>> /\ u[1] \in DtToks
(* pre-check of a double quoted value before CIMDateTime() is tried        *)
(* ('^..$' pattern: one trailing newline passes)                           *)
DtPre(V, u) == V.dtpre = "none" \/
               (Len(StripLf(u)) = 1 /\ StripLf(u)[1] \in DtFull)

(* DSP0004 integerValue / realValue over digit tokens                      *)
Digits(x) == x # <<>> /\ \A i \in DOMAIN x : x[i] \in DigitToks
DigitsOpt(x) == \A i \in DOMAIN x : x[i] \in DigitToks
Unsigned(x) == IF x # <<>> /\ x[1] = "mi" THEN Tail(x) ELSE x
IsInt(x) ==
  LET y == Unsigned(x)
  IN Digits(y) /\ (Len(y) = 1 \/ y[1] # "N0" \/
                   \A i \in 2..Len(y) : y[i] \in OctalOk)
IsReal(V, x) ==
  \/ x \in {<<"INF">>, <<"mi", "INF">>, <<"NAN">>}
  \/ LET y == Unsigned(x)
         es == {i \in DOMAIN y : y[i] \in {"ex", "ex2"}}
         e == IF es = {} THEN Len(y) + 1 ELSE MinOf(es)
         hasexp == es # {}        \* exponent lexeme, more digits may follow
         \* exponent sign: 'E[+-]?' ("ex" = 'e+..', "ex2" = 'e-..')
         signok == V.expsign = "both" \/ ~hasexp \/ y[e] = "ex2"
         expok == Cardinality(es) <= 1 /\ signok
                  /\ DigitsOpt(SubSeq(y, e + 1, Len(y)))
         m == SubSeq(y, 1, e - 1)
         dots == {i \in DOMAIN m : m[i] = "dot"}
     IN expok /\
        IF Cardinality(dots) = 1
        THEN LET d == CHOOSE i \in dots : TRUE
             IN DigitsOpt(SubSeq(m, 1, d - 1)) /\
                Digits(SubSeq(m, d + 1, Len(m)))
        ELSE dots = {} /\ hasexp /\ Digits(m) /\ V.realexp = "any"

OkV(v) == [ok |-> TRUE, err |-> "", v |-> v]
ErrV(e) == [ok |-> FALSE, err |-> e, v |-> NoVal]

RECURSIVE ParseInst(_, _)

(* _kbstr_to_cimval                                                        *)
CimVal(V, it) ==
  IF it.q = "dq"
  THEN LET u == Unesc(it.body)
           r == ParseInst(V, u)
       IN IF r.ok THEN OkV(Val("reference", "", <<>>, <<r.p>>))
          ELSE IF r.err # "ValueError" THEN ErrV(r.err)   \* not caught
          ELSE IF IsDT(V, u) /\ DtPre(V, u)
               THEN OkV(Val("datetime", "", <<u[1]>>, <<>>))
          ELSE OkV(Val("string", "", u, <<>>))
  ELSE IF it.q = "sq"
  THEN LET u == Unesc(it.body)
       IN IF Len(u) = 1 THEN OkV(Val("string", "", u, <<>>))
          ELSE ErrV("ValueError")
  ELSE LET x == it.body
       IN IF x = <<>> THEN ErrV("IndexError")              \* val[0]
          ELSE IF x \in {<<"T">>, <<"F">>}
               THEN OkV(Val("boolean", "", x, <<>>))
          \* the literal patterns end with '$': one trailing newline passes
          ELSE IF IsInt(StripLf(x)) THEN OkV(Val("int", "py", StripLf(x), <<>>))
          ELSE IF IsReal(V, StripLf(x))
               THEN OkV(Val("real", "py", StripLf(x), <<>>))
          ELSE IF IsDT(V, x) THEN OkV(Val("datetime", "", <<x[1]>>, <<>>))
          ELSE ErrV("ValueError")

(* keybindings[key] = ... in a dict, then NocaseDict: the later one wins   *)
RECURSIVE Dedupe(_)
Dedupe(kb) ==
  IF kb = <<>> THEN <<>>
  ELSE IF \E j \in 2..Len(kb) : NameEq(kb[j].k, kb[1].k)
       THEN Dedupe(Tail(kb))
  ELSE <<kb[1]>> \o Dedupe(Tail(kb))

ParseInst(V, text) ==
  LET t == StripLf(text)
      h == ParseHead(V, t)
  IN IF ~h.ok \/ At(t, h.next) # "dot" \/ h.next >= Len(t)
     THEN Fail("ValueError")
     ELSE LET kbt == SubSeq(t, h.next + 1, Len(t))
          IN IF V.lf = "reject" /\ "lf" \in Rng(kbt) THEN Fail("ValueError")
             ELSE LET sp == SplitKbs(V, kbt, 1)
                  IN IF ~sp.ok THEN Fail("ValueError")
                     ELSE LET vals == [i \in DOMAIN sp.items |->
                                         CimVal(V, sp.items[i])]
                              badi == {i \in DOMAIN vals : ~vals[i].ok}
                          IN IF badi # {}
                             THEN Fail(vals[MinOf(badi)].err)
                             ELSE Res(TRUE, "",
                                    Path("inst", h.hashost, h.host, h.hasns,
                                         h.ns, h.cls,
                                         Dedupe([i \in DOMAIN vals |->
                                                  KB(sp.items[i].k,
                                                     vals[i].v)])))

ParseClass(V, text) ==
  LET t == StripLf(text)
      h == ParseHead(V, t)
  IN IF h.ok /\ h.next = Len(t) + 1
     THEN Res(TRUE, "", Path("class", h.hashost, h.host, h.hasns, h.ns,
                             h.cls, <<>>))
     ELSE Fail("ValueError")

ParseU(V, kind, text) == IF kind = "class" THEN ParseClass(V, text)
                         ELSE ParseInst(V, text)

(* ------------------------------ requirement ---------------------------- *)
(* the three documented losses of untyped URIs (Appendix A): numeric width,*)
(* strings that read as a datetime, strings that read as an instance path  *)
ReadsAsDT(s) == Len(s) = 1 /\ s[1] \in DtToks
ReadsAsUri(s) == ParseInst(VPerm, s).ok
Exempt(s) == ReadsAsDT(s) \/ ReadsAsUri(s)

RECURSIVE PathApprox(_, _)
ValApprox(pv, qv) ==
  CASE pv.t \in {"string", "char16"} ->
         IF Exempt(pv.s) THEN TRUE ELSE qv.t = "string" /\ qv.s = pv.s
    [] pv.t \in {"boolean", "int", "real", "datetime"} ->
         qv.t = pv.t /\ qv.s = pv.s                 \* width is not compared
    [] pv.t = "reference" ->
         qv.t = "reference" /\ Len(qv.r) = 1 /\ PathApprox(pv.r[1], qv.r[1])
    [] OTHER -> FALSE
PathApprox(p, q) ==
  /\ p.kind = q.kind
  /\ p.hashost = q.hashost /\ (p.hashost => NameEq(p.host, q.host))
  /\ p.hasns = q.hasns /\ (p.hasns => NameEq(p.ns, q.ns))
  /\ NameEq(p.cls, q.cls)
  /\ {LowerSeq(b.k) : b \in Rng(p.kb)} = {LowerSeq(b.k) : b \in Rng(q.kb)}
  /\ Len(p.kb) = Len(q.kb)
  /\ \A b \in Rng(p.kb) : \A c \in Rng(q.kb) :
        NameEq(b.k, c.k) => ValApprox(b.v, c.v)

(* equal up to case of names/host/namespace and keybinding order           *)
RECURSIVE PathSame(_, _)
ValSame(v1, v2) ==
  /\ v1.t = v2.t /\ v1.w = v2.w /\ v1.s = v2.s /\ Len(v1.r) = Len(v2.r)
  /\ (Len(v1.r) = 1 => PathSame(v1.r[1], v2.r[1]))
PathSame(p, q) ==
  /\ p.kind = q.kind
  /\ p.hashost = q.hashost /\ NameEq(p.host, q.host)
  /\ p.hasns = q.hasns /\ NameEq(p.ns, q.ns)
  /\ NameEq(p.cls, q.cls)
  /\ Len(p.kb) = Len(q.kb)
  /\ \A b \in Rng(p.kb) : \E c \in Rng(q.kb) :
        NameEq(b.k, c.k) /\ ValSame(b.v, c.v)
  /\ \A c \in Rng(q.kb) : \E b \in Rng(p.kb) : NameEq(b.k, c.k)

(* p == parsed can be demanded of python's == only when nothing is lossy   *)
RECURSIVE Lossless(_)
Lossless(p) ==
  \A b \in Rng(p.kb) :
    CASE b.v.t \in {"string", "char16"} -> ~Exempt(b.v.s)
      [] b.v.t = "int" -> b.v.w = "py"
      [] b.v.t = "real" -> b.v.w = "py" /\ b.v.s # <<"NAN">>
      [] b.v.t = "reference" -> Lossless(b.v.r[1])
      [] OTHER -> TRUE

RoundTripFmts == {"standard", "historical", "canonical"}
AllFmts == RoundTripFmts \cup {"cimobject"}

InitState == 0
Apply(s, e) == s
(* events (one vector each):                                               *)
(*  rt:    p, fmt, printed ("ok" | "PrintError:<type>"), outcome ("path" | *)
(*         "ValueError" | "Other:<type>"), q (projection of the parsed     *)
(*         object), eq (python ==), text (projected symbols, drift only)   *)
(*  canon: p, p2, same (canonical strings identical)                       *)
(*  parse: text, outcome (from_wbem_uri of CIMInstanceName), outcomec      *)
(*         (of CIMClassName)                                               *)
Fails(s, e) ==
  CASE e.kind = "rt" ->
         IF e.printed # "ok" THEN {"Printed"}
         ELSE F("ParserTotal", e.outcome \in {"path", "ValueError"})
              \cup F("PrintedAccepted", e.outcome = "path")
              \cup (IF e.fmt \in RoundTripFmts /\ e.outcome = "path"
                    THEN F("RoundTrip", PathApprox(e.p, e.q))
                         \cup F("RoundTripEq", Lossless(e.p) => e.eq)
                    ELSE {})
    [] e.kind = "canon" ->
         IF PathSame(e.p, e.p2) THEN F("CanonicalEqual", e.same) ELSE {}
    [] e.kind = "parse" ->
         F("ParserTotal", e.outcome \in {"path", "ValueError"} /\
                          e.outcomec \in {"path", "ValueError"})
    [] OTHER -> {"UnknownEvent"}
=============================================================================
