SPECIFICATION Spec
CONSTANTS
  Escape = TRUE
  MaxLen = 2
  Alias = TRUE
  Alphabet = {"a", "b", "dot", "star", "paren"}
INVARIANT Isolation
INVARIANT AddServerTotal
INVARIANT ListsEqualServer
PROPERTY RemoveExactlyOwned
CHECK_DEADLOCK FALSE
