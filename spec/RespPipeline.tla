---------------------------- MODULE RespPipeline ----------------------------
(***************************************************************************)
(* C02: bad server responses surface only as documented pywbem errors.     *)
(*                                                                         *)
(* Requirement machine (event style, stateless).  An abstract response     *)
(* ("cell") is the result shape of the operation plus at most two defects; *)
(* a defect is a record [k, site, ty, cls]: kind, where it sits, the CIM   *)
(* type involved and the text/structure class (unused fields are "").      *)
(* Every kind belongs to one stage of response processing; every stage has *)
(* a documented family of pywbem exceptions.  The statement admits, for a  *)
(* call answered with a cell,                                              *)
(*    - a return value of the documented result type, or                   *)
(*    - an exception of the family of a defect that is present;            *)
(* never anything outside pywbem.Error, never a hang, and parse errors     *)
(* carry the request and the response.  Which of the admissible outcomes   *)
(* occurs is free (Appendix A: only the family is constrained).            *)
(***************************************************************************)
EXTENDS Naturals, Sequences, FiniteSets, TLC

F(name, holds) == IF holds THEN {} ELSE {name}
Rng(q) == {q[i] : i \in DOMAIN q}

Shapes == {"void", "export", "method", "inst", "instname", "namedinsts",
           "instnames", "objs_i", "objs_c", "paths_i", "paths_c",
           "queryobjs", "pull_inst", "pull_path", "pull_query",
           "pull_queryc", "classes",
           "classnames", "class", "qualdecls", "qualdecl"}
(* Operation ARGUMENTS that change the documented result - and with it the  *)
(* processing of the response - give a result shape of their own:           *)
(* pull_queryc = answer to OpenQueryInstances / IterQueryInstances called   *)
(* with ReturnQueryResultClass=True: the result carries the CIMClass of the *)
(* QueryResultClass output parameter (pull_query: that item is None and the *)
(* parameter is ignored).                                                   *)
PullShapes == {"pull_inst", "pull_path", "pull_query", "pull_queryc"}
QrcShapes == {"pull_query", "pull_queryc"}
(* shapes whose result is a list of any number of objects                   *)
ListShapes == {"namedinsts", "instnames", "objs_i", "objs_c", "paths_i",
               "paths_c", "queryobjs", "classes", "classnames", "qualdecls"}
              \cup PullShapes

(* where typed values / names / paths can sit in a response of a shape      *)
ShapeSites ==
     "class" :> {"prop", "proparr", "qual", "qualarr", "emb", "key",
          "keyuntyped", "obj", "ref", "paramarr", "paramrefarr", "param",
          "cls", "method"}
  @@ "classes" :> {"prop", "proparr", "qual", "qualarr", "emb", "key",
          "keyuntyped", "obj", "ref", "paramarr", "paramrefarr", "param",
          "cls", "method"}
  @@ "classnames" :> {}
  @@ "export" :> {}
  @@ "inst" :> {"prop", "proparr", "qual", "qualarr", "emb", "key",
          "keyuntyped", "obj", "ref"}
  @@ "instname" :> {"key", "keyuntyped", "ref"}
  @@ "instnames" :> {"key", "keyuntyped", "ref"}
  @@ "method" :> {"retval", "outparam", "outparamarr", "refarr", "prop",
          "proparr", "qual", "qualarr", "emb", "key", "keyuntyped", "obj",
          "ref"}
  @@ "namedinsts" :> {"prop", "proparr", "qual", "qualarr", "emb", "key",
          "keyuntyped", "obj", "ref"}
  @@ "objs_c" :> {"prop", "proparr", "qual", "qualarr", "emb", "key",
          "keyuntyped", "obj", "ref", "paramarr", "paramrefarr", "param",
          "cls", "method", "path"}
  @@ "objs_i" :> {"prop", "proparr", "qual", "qualarr", "emb", "key",
          "keyuntyped", "obj", "ref", "path"}
  @@ "paths_c" :> {"path"}
  @@ "paths_i" :> {"key", "keyuntyped", "ref", "path"}
  @@ "pull_inst" :> {"prop", "proparr", "qual", "qualarr", "emb", "key",
          "keyuntyped", "obj", "ref", "path"}
  @@ "pull_path" :> {"key", "keyuntyped", "ref", "path"}
  @@ "pull_query" :> {"prop", "proparr", "qual", "qualarr", "emb", "key",
          "keyuntyped", "obj", "ref"}
  @@ "pull_queryc" :> {"prop", "proparr", "qual", "qualarr", "emb", "key",
          "keyuntyped", "obj", "ref"}
  @@ "qualdecl" :> {"qdval", "qdarr"}
  @@ "qualdecls" :> {"qdval", "qdarr"}
  @@ "queryobjs" :> {"prop", "proparr", "qual", "qualarr", "emb", "key",
          "keyuntyped", "obj", "ref"}
  @@ "void" :> {}
(* an ERROR element may carry INSTANCE children: with an error-stage defect *)
(* in the cell these sites exist whatever the shape                         *)
ErrorSites == {"prop", "proparr", "qual", "qualarr", "emb", "key",
               "keyuntyped", "obj", "ref"}

(* Child shapes of the response element.  DTD:                              *)
(*   IMETHODRESPONSE: ERROR, or an optional IRETURNVALUE followed by any     *)
(*                    number of PARAMVALUE                                   *)
(*   METHODRESPONSE:  ERROR, or an optional RETURNVALUE followed by any      *)
(*                    number of PARAMVALUE                                   *)
(*   PARAMVALUE (VALUE | VALUE.REFERENCE | VALUE.ARRAY | VALUE.REFARRAY |     *)
(*               CLASSNAME | INSTANCENAME | CLASS | INSTANCE |                *)
(*               VALUE.NAMEDINSTANCE)?      NAME: any CIM name               *)
(* Kind o_pv = one PARAMVALUE child in every DTD-allowed form: position      *)
(* among the children (site), class of its NAME (ty: the names a client     *)
(* gives a meaning to - including the names of the sibling elements - or     *)
(* any other name), child element kind (cls).  ERROR / IRETURNVALUE /        *)
(* RETURNVALUE children themselves are the kinds r_*, o_irv, o_struct,       *)
(* m_misc.                                                                   *)
(* Kind o_het = HETEROGENEOUS result list: the objects of a multi-object     *)
(* result are varied independently - the first object is of kind ty, at      *)
(* least one later object of kind cls # ty (any order after the first).      *)
(* Covers the DTD-valid mixes (instance- and class-level objects in the      *)
(* polymorphic elements OBJECTPATH, VALUE.OBJECT, VALUE.OBJECTWITHPATH,      *)
(* VALUE.OBJECTWITHLOCALPATH) and the DTD-invalid ones (unlike elements).    *)
PvPos == {"only",      \* the only child of the response element
          "first",     \* before the return element (which is present)
          "last",      \* after the return element and all other children
          "forret"}    \* in place of the return element, other children kept
PvNames == {"IRETURNVALUE", "RETURNVALUE", "ERROR", "EndOfSequence",
            "EnumerationContext", "QueryResultClass", "other"}
PvKids == {"none", "VALUE", "VALUE.REFERENCE", "VALUE.ARRAY",
           "VALUE.REFARRAY", "CLASSNAME", "INSTANCENAME", "CLASS", "INSTANCE",
           "VALUE.NAMEDINSTANCE"}
PvApplicable(shape, d) ==
  /\ shape # "export"          \* EXPMETHODRESPONSE (ERROR | IRETURNVALUE?)
  /\ d.site \in (IF shape = "void" THEN {"only"}
                 ELSE IF shape \in PullShapes \cup {"method"} THEN PvPos
                 ELSE {"only", "first", "last"})
  /\ d.ty \in (IF shape = "method" THEN {"RETURNVALUE", "ERROR", "other"}
               ELSE {"IRETURNVALUE", "ERROR", "other"}
                    \cup (IF shape \in PullShapes
                          THEN {"EndOfSequence", "EnumerationContext"} ELSE {})
                    \cup (IF shape \in QrcShapes
                          THEN {"QueryResultClass"} ELSE {}))

(* child element kinds of IRETURNVALUE (DTD: a sequence of LIKE elements of  *)
(* one of these names; /i and /c = the element holds an instance-level or a  *)
(* class-level object: VALUE.OBJECT*, OBJECTPATH are polymorphic), plus two  *)
(* names the DTD does not allow there                                        *)
IrvKinds == {"CLASSNAME", "INSTANCENAME", "VALUE",
             "VALUE.OBJECTWITHPATH/i", "VALUE.OBJECTWITHPATH/c",
             "VALUE.OBJECTWITHLOCALPATH/i",
             "VALUE.OBJECTWITHLOCALPATH/c", "VALUE.OBJECT/i",
             "VALUE.OBJECT/c", "OBJECTPATH/i", "OBJECTPATH/c",
             "QUALIFIER.DECLARATION", "VALUE.ARRAY", "VALUE.REFERENCE",
             "CLASS", "INSTANCE", "INSTANCEPATH",
             "VALUE.NAMEDINSTANCE", "VALUE.INSTANCEWITHPATH",
             "VALUE.NAMEDOBJECT", "UNKNOWN"}
(* element name of a kind                                                    *)
ElemOf(e) ==
  CASE e \in {"VALUE.OBJECTWITHPATH/i", "VALUE.OBJECTWITHPATH/c"} ->
         "VALUE.OBJECTWITHPATH"
    [] e \in {"VALUE.OBJECTWITHLOCALPATH/i", "VALUE.OBJECTWITHLOCALPATH/c"} ->
         "VALUE.OBJECTWITHLOCALPATH"
    [] e \in {"VALUE.OBJECT/i", "VALUE.OBJECT/c"} -> "VALUE.OBJECT"
    [] e \in {"OBJECTPATH/i", "OBJECTPATH/c"} -> "OBJECTPATH"
    [] OTHER -> e

(* defect kinds: stage, parameter alphabets, shapes they make sense for     *)
KindTab ==
     "c_type" :> [stage |-> "ctype",
        sites |-> {""},
        tys |-> {""},
        clss |-> {"missing", "textxml", "plain", "html", "json", "empty",
                 "upper", "xmlish", "charset"},
        shapes |-> Shapes]
  @@ "e_env" :> [stage |-> "envelope",
        sites |-> {""},
        tys |-> {""},
        clss |-> {"root_other", "root_message", "cim_nocimversion",
                 "cim_nodtdversion", "cim_extraattr", "cimversion_3",
                 "dtdversion_1", "cimversion_empty", "cim_nochild",
                 "cim_twomsg", "cim_declaration", "cim_text", "msg_noid",
                 "msg_noprotover", "protover_2", "protover_empty",
                 "msg_nochild", "msg_dupchild", "msg_simplereq",
                 "msg_multirsp", "msg_wrongrsp", "msg_extraattr",
                 "msg_multiexprsp", "rsp_nochild", "rsp_dupchild",
                 "rsp_wrongkind", "rsp_unknownchild", "rsp_attr",
                 "name_missing", "name_wrong", "name_case", "name_empty",
                 "resp_extraattr", "resp_unknownchild", "resp_text",
                 "lower_names", "nsprefix"},
        shapes |-> Shapes]
  @@ "f_bytes" :> [stage |-> "fuzz",
        sites |-> {""},
        tys |-> {""},
        clss |-> {"bitflip", "trunc", "delbyte", "insbyte", "dupslice",
                 "swap"},
        shapes |-> Shapes]
  @@ "f_tree" :> [stage |-> "fuzz",
        sites |-> {""},
        tys |-> {""},
        clss |-> {"dup", "del", "rename", "delattr", "addattr", "swap",
                 "text", "emptyattr", "unwrap"},
        shapes |-> Shapes]
  (* h_num: ONE response HEADER whose value the client side converts to a   *)
  (* number, carrying a lexeme of every numeric text class (the classes of  *)
  (* v_num).  ty = the header: resptime = WBEMServerResponseTime (pywbem:    *)
  (* float(value)/1000000 in wbem_request, whatever the status), clen =      *)
  (* Content-Length (requests/urllib3 below pywbem: framing of the body).    *)
  @@ "h_num" :> [stage |-> "header",
        sites |-> {""},
        tys |-> {"resptime", "clen"},
        clss |-> {"dec", "neg", "hex", "inf", "ninf", "nan", "e999", "oor",
                 "empty", "ws", "frac", "alpha", "plus", "usc", "udig",
                 "long", "junk", "big", "hexbig", "hexlong", "fracbig",
                 "expneg"},
        shapes |-> Shapes]
  @@ "m_misc" :> [stage |-> "optype",
        sites |-> {""},
        tys |-> {""},
        clss |-> {"two_retvals", "retval_last", "retval_ref_notype",
                 "retval_notype", "retval_type_bogus", "out_notype",
                 "out_type_bogus", "out_ref_text", "out_class", "out_inst",
                 "out_namedinst", "out_classname", "out_instname",
                 "dup_out", "irv", "retval_empty", "out_noname",
                 "retval_attr", "out_reftype_value", "retval_refarray",
                 "out_hex", "retval_hex", "out_bool_false",
                 "out_str_for_num"},
        shapes |-> {"method"}]
  @@ "o_het" :> [stage |-> "optype",
        sites |-> {""},
        tys |-> IrvKinds,
        clss |-> IrvKinds,
        shapes |-> ListShapes]
  @@ "o_irv" :> [stage |-> "optype",
        sites |-> {""},
        tys |-> {""},
        clss |-> IrvKinds,
        shapes |-> Shapes]
  @@ "o_pv" :> [stage |-> "optype",
        sites |-> PvPos,
        tys |-> PvNames,
        clss |-> PvKids,
        shapes |-> Shapes \ {"export"}]
  @@ "o_struct" :> [stage |-> "optype",
        sites |-> {""},
        tys |-> {""},
        clss |-> {"missing", "empty", "dup", "mixed", "many", "paramvalue",
                 "attr", "text", "irv_in_param"},
        shapes |-> Shapes]
  @@ "p_ctx" :> [stage |-> "optype",
        sites |-> {""},
        tys |-> {""},
        clss |-> {"missing", "emptyval", "novalue", "dup", "array", "ref",
                 "inst", "long", "paramtype_bogus"},
        shapes |-> PullShapes]
  @@ "p_eos" :> [stage |-> "optype",
        sites |-> {""},
        tys |-> {""},
        clss |-> {"true", "lower", "false_ctx", "false_noctx",
                 "missing_both", "missing_eos", "bogus", "emptyval",
                 "novalue", "dup", "ws", "array", "paramtype_bogus", "one",
                 "true_ctx_none"},
        shapes |-> PullShapes]
  @@ "p_misc" :> [stage |-> "optype",
        sites |-> {""},
        tys |-> {""},
        clss |-> {"unknownparam", "empty", "noname", "emptyname",
                 "twokids", "qrc_class", "qrc_notclass", "qrc_novalue",
                 "qrc_missing", "embattr", "badchild", "onlyirv"},
        shapes |-> PullShapes]
  @@ "r_child" :> [stage |-> "error",
        sites |-> {""},
        tys |-> {""},
        clss |-> {"insts", "value", "text", "extraattr"},
        shapes |-> Shapes]
  @@ "r_code" :> [stage |-> "error",
        sites |-> {""},
        tys |-> {""},
        clss |-> {"num", "zero", "huge", "neg", "empty", "alpha", "hex",
                 "float", "ws", "missing", "plus", "usc", "udig", "long"},
        shapes |-> Shapes]
  @@ "r_mixed" :> [stage |-> "error",
        sites |-> {""},
        tys |-> {""},
        clss |-> {"err_irv", "irv_err", "two", "err_param"},
        shapes |-> Shapes]
  @@ "s_401" :> [stage |-> "status",
        sites |-> {""},
        tys |-> {""},
        clss |-> {"basic", "none", "digest", "multi", "odd"},
        shapes |-> Shapes]
  @@ "s_cimerror" :> [stage |-> "status",
        sites |-> {""},
        tys |-> {""},
        clss |-> {"plain", "pgdetail", "pgbad", "empty"},
        shapes |-> Shapes]
  @@ "s_err" :> [stage |-> "status",
        sites |-> {""},
        tys |-> {""},
        clss |-> {"403", "404", "500", "501", "503", "400", "204", "201",
                 "206", "301", "304", "100", "999", "0"},
        shapes |-> Shapes]
  @@ "t_exc" :> [stage |-> "transport",
        sites |-> {""},
        tys |-> {""},
        clss |-> {"refused", "reset", "disconnected", "readtimeout",
                 "connecttimeout", "retrytimeout", "ssl", "urllib3",
                 "proxy", "chunked", "bodytimeout", "gzip", "redirloop",
                 "redirbad"},
        shapes |-> Shapes]
  @@ "u_bad" :> [stage |-> "utf8",
        sites |-> {""},
        tys |-> {""},
        clss |-> {"surrogate", "ff", "truncseq", "overlong", "lone80",
                 "cesu"},
        shapes |-> Shapes]
  @@ "v_asize" :> [stage |-> "value",
        sites |-> {"proparr", "paramarr", "paramrefarr", "qdarr"},
        tys |-> {""},
        clss |-> {"dec", "zero", "empty", "alpha", "neg", "hex", "huge",
                 "float", "ws", "plus"},
        shapes |-> Shapes]
  @@ "v_battr" :> [stage |-> "value",
        sites |-> {"prop", "qual", "qdval", "method"},
        tys |-> {""},
        clss |-> {"bad", "empty", "upper", "ws"},
        shapes |-> Shapes]
  @@ "v_bool" :> [stage |-> "value",
        sites |-> {"prop", "proparr", "qual", "key", "qdval", "retval",
                  "outparam", "outparamarr", "emb"},
        tys |-> {""},
        clss |-> {"true", "upper", "ws", "empty", "yes", "one", "wsonly"},
        shapes |-> Shapes]
  @@ "v_c16" :> [stage |-> "value",
        sites |-> {"prop", "proparr", "qual", "key", "qdval", "retval",
                  "outparam", "outparamarr", "emb"},
        tys |-> {""},
        clss |-> {"one", "empty", "two", "astral", "ws"},
        shapes |-> Shapes]
  @@ "v_deep" :> [stage |-> "value",
        sites |-> {"ref", "emb"},
        tys |-> {""},
        clss |-> {"d50", "d200", "d2000"},
        shapes |-> Shapes]
  @@ "v_dt" :> [stage |-> "value",
        sites |-> {"prop", "proparr", "qual", "key", "qdval", "retval",
                  "outparam", "outparamarr", "emb"},
        tys |-> {""},
        clss |-> {"ts", "interval", "bad", "empty", "ws", "short",
                 "badmonth", "nonascii"},
        shapes |-> Shapes]
  @@ "v_emb" :> [stage |-> "value",
        sites |-> {"prop", "outparam", "retval"},
        tys |-> {""},
        clss |-> {"ok_instance", "ok_class", "notxml", "illformed",
                 "wrongroot", "badattr", "numtype", "empty", "badinner",
                 "array", "utf8", "both_attrs", "false_attr"},
        shapes |-> Shapes]
  @@ "v_key" :> [stage |-> "value",
        sites |-> {"key"},
        tys |-> {""},
        clss |-> {"valuetype_bogus", "type_bogus", "dupname", "noname",
                 "two_kids", "unnamed", "keyless", "refkey", "mixed",
                 "emptykb", "child_elem", "bool_bad", "valuetype_empty"},
        shapes |-> Shapes]
  @@ "v_meth" :> [stage |-> "value",
        sites |-> {"cls"},
        tys |-> {""},
        clss |-> {"noret", "ret_empty", "ret_bogus", "ret_reference",
                 "param_in_class", "param_value"},
        shapes |-> Shapes]
  @@ "v_name" :> [stage |-> "value",
        sites |-> {"obj", "cls"},
        tys |-> {""},
        clss |-> {"propname_empty", "propname_dup", "propname_missing",
                 "classname_empty", "classname_missing", "qualname_empty",
                 "superclass_empty", "name_odd", "refclass_empty",
                 "classorigin_empty", "methname_empty", "paramname_empty",
                 "qualname_dup", "methname_dup", "paramname_dup",
                 "method_child"},
        shapes |-> Shapes]
  @@ "v_nspath" :> [stage |-> "value",
        sites |-> {"path"},
        tys |-> {""},
        clss |-> {"nohost", "emptylnp", "nsnoname", "nsempty", "hostempty",
                 "swapped", "hostelem", "nsextra",
                 "classname_in_path_missing"},
        shapes |-> Shapes]
  @@ "v_null" :> [stage |-> "value",
        sites |-> {"prop", "proparr", "qual", "qualarr", "qdval", "qdarr",
                  "retval", "outparam", "outparamarr", "emb", "refarr"},
        tys |-> {"string", "uint8", "sint64", "real32", "boolean",
                "datetime", "char16"},
        clss |-> {""},
        shapes |-> Shapes]
  @@ "v_num" :> [stage |-> "value",
        sites |-> {"prop", "proparr", "qual", "qualarr", "key",
                  "keyuntyped", "qdval", "qdarr", "retval", "outparam",
                  "outparamarr", "emb"},
        tys |-> {"uint8", "sint8", "uint16", "sint16", "uint32", "sint32",
                "uint64", "sint64", "real32", "real64"},
        clss |-> {"dec", "neg", "hex", "inf", "ninf", "nan", "e999", "oor",
                 "empty", "ws", "frac", "alpha", "plus", "usc", "udig",
                 "long", "junk", "big", "hexbig", "hexlong", "fracbig",
                 "expneg"},
        shapes |-> Shapes]
  @@ "v_shape" :> [stage |-> "value",
        sites |-> {"prop", "proparr", "qual", "qdval", "retval",
                  "outparam"},
        tys |-> {""},
        clss |-> {"arr_in_scalar", "nested_value", "ref_in_value",
                 "scalar_in_arr", "two_values"},
        shapes |-> Shapes]
  @@ "v_type" :> [stage |-> "value",
        sites |-> {"prop", "proparr", "qual", "key", "qdval", "retval",
                  "outparam", "outparamarr", "emb", "param"},
        tys |-> {""},
        clss |-> {"unknown", "empty", "upper", "reference", "missing",
                 "ws",
                 "trail"},  \* valid type name + leading/trailing control
                            \* character (char reference: &#10; &#13; &#9;)
        shapes |-> Shapes]
  @@ "w_enc" :> [stage |-> "xml",
        sites |-> {""},
        tys |-> {""},
        clss |-> {"bogus", "sjis", "eucjp", "hex", "utf16decl", "utf7",
                 "utf16", "utf16nobom", "latin1", "bom", "doctype",
                 "cp037", "idna", "empty"},
        shapes |-> Shapes]
  @@ "w_form" :> [stage |-> "xml",
        sites |-> {""},
        tys |-> {""},
        clss |-> {"trunc", "mismatch", "dupattr", "rawamp", "rawlt",
                 "entity", "tworoots", "empty", "ws", "junkafter",
                 "junkbefore", "html", "json", "bin", "cdata", "comment",
                 "declate", "declv2", "pi", "quote"},
        shapes |-> Shapes]
  @@ "x_char" :> [stage |-> "utf8",
        sites |-> {""},
        tys |-> {""},
        clss |-> {"ctrl", "nul", "fffe", "charref", "ffff"},
        shapes |-> Shapes]

Kinds == DOMAIN KindTab
StageOf(d) == KindTab[d.k].stage

ClassOnlyNames == {"methname_empty", "paramname_empty", "methname_dup",
                   "paramname_dup", "superclass_empty"}
ComboOk(d) ==
  CASE d.k = "v_shape" ->
       CASE d.cls = "__none__" -> FALSE
       [] d.cls = "arr_in_scalar" -> d.site \in {"prop", "retval"}
       [] d.cls = "nested_value" -> d.site \in {"prop", "qual", "outparam"}
       [] d.cls = "ref_in_value" -> d.site \in {"prop", "proparr", "qual", "qdval", "outparam"}
       [] d.cls = "scalar_in_arr" -> d.site \in {"proparr"}
       [] d.cls = "two_values" -> d.site \in {"prop", "proparr", "qual", "qdval", "retval", "outparam"}
       [] OTHER -> FALSE
    [] d.k = "v_name" -> (d.cls \in ClassOnlyNames) = (d.site = "cls")
    [] d.k = "v_deep" -> ~(d.site = "emb" /\ d.cls = "d2000")  \* size
    [] d.k = "o_het" -> d.ty # d.cls      \* homogeneous lists: kind o_irv
    [] OTHER -> TRUE

KnownDefect(d) ==
  /\ d.k \in Kinds
  /\ d.site \in KindTab[d.k].sites
  /\ d.ty \in KindTab[d.k].tys
  /\ d.cls \in KindTab[d.k].clss
  /\ ComboOk(d)

(* defect d makes sense in a response of the shape (hasErr: the cell also  *)
(* holds an error-stage defect, i.e. an ERROR element)                      *)
Applicable(shape, d, hasErr) ==
  /\ KnownDefect(d)
  /\ shape \in KindTab[d.k].shapes
  /\ IF d.k = "o_pv" THEN PvApplicable(shape, d)
     ELSE d.site = "" \/ d.site \in ShapeSites[shape]
                     \/ (hasErr /\ d.site \in ErrorSites)
  /\ d.k \in {"o_irv", "o_struct"} => shape # "method"   \* there: m_misc

WellFormedCell(shape, defs) ==
  /\ shape \in Shapes
  /\ Cardinality(defs) <= 2
  /\ \A d \in defs :
       Applicable(shape, d, \E x \in defs \ {d} : StageOf(x) = "error")

(* ----------------------- documented exceptions ------------------------- *)
VersionErrors == {"CIMVersionError", "DTDVersionError", "ProtocolVersionError",
                  "VersionError"}
ParseErrors == {"CIMXMLParseError", "XMLParseError", "HeaderParseError",
                "ParseError"}
PywbemErrors == ParseErrors \cup VersionErrors \cup
                {"CIMError", "HTTPError", "AuthError", "ConnectionError",
                 "TimeoutError"}

Family(stage) ==
  CASE stage = "transport" -> {"ConnectionError", "TimeoutError"}
    [] stage = "status"    -> {"AuthError", "HTTPError"}
    [] stage = "ctype"     -> {"HeaderParseError"}
    (* a header that cannot be interpreted, or that contradicts the body    *)
    (* (Content-Length: framing fault, on a socket also a read timeout)      *)
    [] stage = "header"    -> {"HeaderParseError", "ConnectionError",
                               "TimeoutError"}
    [] stage = "utf8"      -> {"XMLParseError"}
    [] stage = "xml"       -> {"XMLParseError"}
    [] stage = "envelope"  -> {"CIMXMLParseError"} \cup VersionErrors
    [] stage = "error"     -> {"CIMError", "CIMXMLParseError"}
    [] stage = "value"     -> {"CIMXMLParseError", "XMLParseError"}
    [] stage = "optype"    -> {"CIMXMLParseError", "XMLParseError"}
    [] stage = "fuzz"      -> {"CIMXMLParseError", "XMLParseError", "CIMError"}
                              \cup VersionErrors

(* admissible exception classes for a cell; a value of the documented type *)
(* is always admissible (the statement does not oblige pywbem to reject)   *)
(* two byte-level transformations do not commute (re-encoding a document   *)
(* that already holds ill-formed bytes changes its text): their            *)
(* composition is just some byte mutation, i.e. of class "fuzz"            *)
ByteStages == {"utf8", "xml"}
AdmissibleErrors(defs) ==
  UNION {Family(StageOf(d)) : d \in defs} \cup
  (IF Cardinality({d \in defs : StageOf(d) \in ByteStages}) >= 2
   THEN Family("fuzz") ELSE {})

(* ------------------------------ events --------------------------------- *)
(* e = [op, shape, defects (sequence of defect records), kind ("value" |  *)
(*      "error" | "hang"), cls (exception class; the nearest pywbem class  *)
(*      for subclasses of pywbem.Error), pywbem, req, resp, typeok]         *)
InitState == 0
Apply(s, e) == s

Fails(s, e) ==
  LET defs == Rng(e.defects) IN
  IF ~WellFormedCell(e.shape, defs) \/ Len(e.defects) # Cardinality(defs)
  THEN {"Trace.WellFormedCell"}
  ELSE
       F("Terminates", e.kind # "hang")
  \cup F("Trace.KnownOutcomeKind", e.kind \in {"value", "error", "hang"})
  \cup F("OnlyDocumented",
         e.kind = "error" => (e.pywbem /\ e.cls \in PywbemErrors))
  \cup F("ResultType", e.kind = "value" => e.typeok)
  \cup F("ParseErrorsCarryData",
         (e.kind = "error" /\ e.pywbem /\ e.cls \in ParseErrors)
            => (e.req /\ e.resp))
  \cup F("FamilyOfFailingStage",
         (e.kind = "error" /\ e.pywbem /\ e.cls \in PywbemErrors
            /\ defs # {}) => e.cls \in AdmissibleErrors(defs))
=============================================================================
