---------------------------- MODULE ConnLifeImpl ----------------------------
(***************************************************************************)
(* X04 - TLC model check: the code-shaped machine (ConnLifeImplOps) in     *)
(* lock step with the requirement machine (ConnLife), one action per API   *)
(* call, for EVERY history of at most MaxSteps calls over the call         *)
(* alphabet selected by the configuration:                                 *)
(*   Mode = "stats"   a Statistics object driven directly: start_timer /   *)
(*                    stop_timer (clock advance, lengths, server time,     *)
(*                    exception flag) / enable / disable / reset /         *)
(*                    snapshot / re-read of an old snapshot                *)
(*   Mode = "http"    WBEMConnection on a scripted transport: operations   *)
(*                    (response class x non-ASCII x duration x server time *)
(*                    header), close, with-block, copy, debug / statistics *)
(*                    switches, recorder add / enable / disable, peeks     *)
(*   Mode = "mock"    FakedWBEMConnection (no wire)                        *)
(* Invariant ImplRefinesReq: the observation the code shape produces never *)
(* violates a clause of the requirement.  The configurations with a pinned *)
(* or wrong code shape must violate it (regression configurations).        *)
(* With GenDepth > 0 the history of calls is kept in `hist` (behaviour     *)
(* emission for the replay into the real code; -simulate).                 *)
(***************************************************************************)
EXTENDS ConnLifeImplOps, SequencesExt

CONSTANTS Mode, En0, Names, Fam, OpShapes, MaxConn, MaxSteps, GenDepth,
          Advs, Lens, Srvs, MaxSnap

VARIABLES si, s, bad, hist, n
vars == <<si, s, bad, hist, n>>

(* ---- call alphabet ---- *)
Shape(resp, na, dur, srvh) == [resp |-> resp, na |-> na, dur |-> dur, srvh |-> srvh]
OpsHttpFull ==
  {Shape("ok", na, d, h) : na \in BOOLEAN, d \in {1, 2}, h \in {NONE, 3}}
  \cup {Shape("cimerr", FALSE, 1, h) : h \in {NONE, 3}}
  \cup {Shape("http500", FALSE, 1, h) : h \in {NONE, 3}}
  \cup {Shape(r, FALSE, 1, NONE) : r \in {"xmlerr", "cimxmlerr", "connerr"}}
  \cup {Shape("badarg", FALSE, 0, NONE)}
OpsHttpLife == {Shape("ok", FALSE, 1, NONE), Shape("badarg", FALSE, 0, NONE)}
OpsHttpLast ==
  {Shape("ok", na, 1, NONE) : na \in BOOLEAN}
  \cup {Shape(r, FALSE, 1, NONE) :
          r \in {"cimerr", "xmlerr", "cimxmlerr", "http500", "connerr", "badarg"}}
OpsHttpStat ==
  {Shape("ok", FALSE, d, h) : d \in {1, 2}, h \in {NONE, 3}}
  \cup {Shape("connerr", FALSE, 1, NONE), Shape("http500", FALSE, 1, 3),
        Shape("badarg", FALSE, 0, NONE)}
OpsHttpRec == {Shape("ok", FALSE, 1, NONE), Shape("connerr", FALSE, 1, NONE)}
OpsMock == {Shape("ok", FALSE, d, NONE) : d \in {0, 2}}
           \cup {Shape("cimerr", FALSE, 0, NONE), Shape("badarg", FALSE, 0, NONE)}

LensSmall == {NONE, 10, 30}
SrvsSmall == {NONE, 1, 3}
LensOne == {10}
LensSim == {NONE, 0, 10, 30, 500}
SrvsSim == {NONE, 0, 1, 7}
SrvsOne == {1}
NameLen(name) == IF name = "EnumerateInstanceNames" THEN 100 ELSE 120
WpOf(resp) == CASE resp = "ok" -> 200 [] resp = "cimerr" -> 150
                [] resp = "xmlerr" -> 60 [] resp = "cimxmlerr" -> 70
                [] resp = "http500" -> 17 [] OTHER -> NONE

OpCall(c, name, sh, rid) ==
  LET http == Mode = "http" /\ sh.resp # "badarg"
      wqn == NameLen(name) + (IF sh.na THEN 6 ELSE 0) IN
  [k |-> "c", ev |-> "op", c |-> c, name |-> name, rid |-> rid,
   resp |-> sh.resp, na |-> sh.na, dur |-> sh.dur, srvh |-> sh.srvh,
   wq |-> IF http THEN wqn + 40 ELSE NONE,
   wqn |-> IF http THEN wqn ELSE NONE,
   wqc |-> IF http THEN wqn - (IF sh.na THEN 3 ELSE 0) ELSE NONE,
   wp |-> IF http THEN WpOf(sh.resp) ELSE NONE, waive |-> << >>]

(* the mock has one natural response class per operation *)
MockOk(name, sh) ==
  Mode # "mock" \/
  (CASE name = "GetInstance" -> sh.resp = "cimerr"
     [] name = "CreateInstance" -> sh.resp = "ok"
     [] OTHER -> sh.resp \in {"ok", "badarg"})

CC(ev, c) == [k |-> "c", ev |-> ev, c |-> c, waive |-> << >>]
SC(ev, adv, name, rl, sv, exc, id) ==
  [k |-> "s", ev |-> ev, adv |-> adv, name |-> name, rl |-> rl,
   pl |-> IF rl = NONE THEN NONE ELSE rl + 5, sv |-> sv, exc |-> exc,
   id |-> id, waive |-> << >>]

ConnCalls(i) ==
  LET C == DOMAIN i.conns IN
  (IF "op" \in Fam
   THEN {OpCall(c, nm, sh, n + 1) : c \in C,
           nm \in {x \in Names : TRUE},
           sh \in {y \in OpShapes : TRUE}}
   ELSE {})
  \cup (IF "peek" \in Fam THEN {CC("peek", c) : c \in C} ELSE {})
  \cup (IF "close" \in Fam THEN {CC("close", c) : c \in C} ELSE {})
  \cup (IF "with" \in Fam
        THEN {CC("with", c) @@ [body |-> b] : c \in C,
                b \in {"pass", "raise", "close"}}
        ELSE {})
  \cup (IF "copy" \in Fam /\ Len(i.conns) < MaxConn
        THEN {CC("copy", c) : c \in C} ELSE {})
  \cup (IF "debug" \in Fam
        THEN {CC("setdebug", c) @@ [v |-> ~i.conns[c].debug] : c \in C}
        ELSE {})
  \cup (IF "stats" \in Fam
        THEN {CC("setstats", c) @@ [v |-> ~i.stats[i.conns[c].stid].en] : c \in C}
        ELSE {})
  \cup (IF "rec" \in Fam
        THEN {CC("addrec", c) @@ [cls |-> cl, predis |-> pd] :
                c \in C, cl \in {"A", "B", "none"}, pd \in BOOLEAN}
             \cup {CC("recen", c) @@ [cls |-> cl, v |-> v] :
                     c \in C, cl \in {"A", "B"}, v \in BOOLEAN}
             \cup {CC("recall", c) @@ [cls |-> "", v |-> v] :
                     c \in C, v \in BOOLEAN}
        ELSE {})

StatCalls(i) ==
  {SC("start", 0, nm, NONE, NONE, FALSE, 0) : nm \in Names}
  \cup {SC("stop", a, nm, rl, sv, x, 0) :
          a \in Advs, nm \in DOMAIN i.hand, rl \in Lens, sv \in Srvs,
          x \in BOOLEAN}
  \cup {SC(ev, 0, "", NONE, NONE, FALSE, 0) : ev \in {"enable", "disable", "reset"}}
  \cup (IF Cardinality(DOMAIN i.snaps) < MaxSnap
        THEN {SC("snap", 0, "", NONE, NONE, FALSE, Cardinality(DOMAIN i.snaps) + 1)}
        ELSE {})
  \cup {SC("chk", 0, "", NONE, NONE, FALSE, id) : id \in DOMAIN i.snaps}

Calls(i) ==
  IF i.mode = "none"
  THEN {[k |-> "new", mode |-> Mode, en |-> en, waive |-> << >>] : en \in En0}
  ELSE IF Mode = "stats" THEN StatCalls(i)
  ELSE {c \in ConnCalls(i) :
          c.ev # "op" \/ MockOk(c.name, [resp |-> c.resp])}

(* predicted observation -> event as the requirement machine reads it *)
Event(c, obs) ==
  c @@ [f \in DOMAIN obs |->
          IF f \in {"tab", "stab"} THEN SetToSeq(obs[f]) ELSE obs[f]]

Init == si = Impl0 /\ s = InitState /\ bad = {} /\ hist = << >> /\ n = 0

Do(c) == LET os == ImplStep(si, c)
             e == Event(c, os[1]) IN
         /\ si' = os[2]
         /\ bad' = Fails(s, e)
         /\ s' = Apply(s, e)
         /\ hist' = IF GenDepth > 0 THEN Append(hist, c) ELSE hist
         /\ n' = n + 1

Next == n < MaxSteps /\ \E c \in Calls(si) : Do(c)
Spec == Init /\ [][Next]_vars

ImplRefinesReq == bad = {}
ReqWellFormed == WellFormed(s)
(* the reference counters of the requirement and the code-shaped counters
   agree wherever the requirement is determined *)
MappingHolds ==
  /\ si.mode = "stats" =>
       \A k \in DOMAIN s.st.ref :
          s.st.ref[k].wild \/ s.st.ref[k].n = 0
          \/ (k \in DOMAIN si.stats[1].ops /\ si.stats[1].ops[k].cnt = s.st.ref[k].n)
  /\ \A c \in DOMAIN s.conns : s.conns[c].open = si.conns[c].open
=============================================================================
