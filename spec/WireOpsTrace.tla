----------------------------- MODULE WireOpsTrace -----------------------------
(***************************************************************************)
(* C03 - validation of documents captured from the real pywbem code.       *)
(* One trace = one event = one document (request body + headers at the     *)
(* transport adapter, tocimxmlstr() result, listener response).  Verdicts  *)
(* come from WireOps!Fails (well-formed, Char-only, ValidTree against the  *)
(* DSP0203 table, HeadersAgree).  Events that were generated from a case   *)
(* of the case space are also compared with the code-shaped transcription  *)
(* (repaired variant, else the originally pinned one; every case is        *)
(* touched by at most one of the three flags): a difference is impl drift, *)
(* never a violation.  The same holds for the documents tocimxmlstr()      *)
(* returns for the object cases (shape.op = "#obj": tree only).            *)
(***************************************************************************)
EXTENDS WireOpsImplOps, Json, IOUtils

VARIABLES tid, l, verdict, ts, ti, drifted

RECURSIVE PathStr(_)
PathStr(p) == IF Len(p) = 0 THEN "" ELSE "/" \o p[1] \o PathStr(Tail(p))

DriftOf(e, V) ==
  LET r == DocOf(e.shape, V) IN
  IF r.emit # e.emitted THEN {"emitted"}
  ELSE IF ~r.emit THEN {}
  ELSE IF ~e.wf THEN {"tree:not-well-formed"}
  ELSE (IF SameTree(e.tree, r.tree) THEN {}
        ELSE {"tree:" \o PathStr(DiffPath(e.tree, r.tree))})
       \cup (IF IsObjCase(e.shape) THEN {} ELSE
             IF /\ e.hdr.mhas /\ e.hdr.mok /\ e.hdr.method = r.hdr.method
                /\ (r.hdr.form = "none" \/
                    (r.hdr.form = "unparsable" /\ e.hdr.form = "unparsable") \/
                      (/\ e.hdr.ohas /\ e.hdr.ook /\ e.hdr.form = r.hdr.form
                       /\ (e.hdr.ns = r.hdr.ns \/ e.hdr.nss = r.hdr.ns)
                       /\ e.hdr.cls = r.hdr.cls
                       /\ SeqToSet(e.hdr.keys) = SeqToSet(r.hdr.keys)))
             THEN {} ELSE {"hdr"})

ImplCmp(i, e) ==
  IF e.shape.op = "free" THEN <<{}, i>>
  ELSE LET d1 == DriftOf(e, {}) IN
       IF d1 = {} THEN <<{}, i>>
       ELSE IF DriftOf(e, Pinned) = {} THEN <<{}, i>>
       ELSE <<d1, i>>

TraceBatch == JsonDeserialize(IOEnv.TRACE_FILE).traces

TK == INSTANCE TraceKit WITH
        TTraces <- TraceBatch,
        TInit0 <- InitState, TFails <- Fails, TApply <- Apply,
        TInv <- LAMBDA st : TRUE,
        TImpl0 <- 0, TImplStep <- ImplCmp
TSpec == TK!TSpec
=============================================================================
