\* regression config: include guard keyed by the path as spelled: a cycle through ./x.mof or d/../x.mof is never recognised (must violate ImplRefinesReq: RecursionError)
SPECIFICATION Spec
CONSTANTS
  MaxProd = 1
  MaxDepth = 6
  OnlyKinds = {"include"}
  IncludeGuard = TRUE
  NsNoneCheck = TRUE
  HexBounds = TRUE
  CtxBounds = TRUE
  ValueWrapped = TRUE
  RepoWrapped = TRUE
  EmbFinally = TRUE
  RestoreOnReturn = TRUE
  EmbRestoreAll = TRUE
  SuperCheckFirst = TRUE
  AncestryWalk = TRUE
  GuardCanonical = FALSE
  RegisterAfterCreate = TRUE
  NsCachesInit = TRUE
  EmbNullChecked = TRUE
  OverflowWrapped = TRUE
  InstOffsetAll = TRUE
  OpenPrecheck = TRUE
  EmbLexerClone = TRUE
INVARIANT TypeOK
INVARIANT ImplRefinesReq
INVARIANT PositionFileOK
INVARIANT Reusable

CHECK_DEADLOCK FALSE
