---------------------------- MODULE PullSrvImpl ----------------------------
(***************************************************************************)
(* Code-shaped machine of the mock server's pull support                   *)
(* (pywbem_mock/_mainprovider.py: _open_response, _pull_response,          *)
(* CloseEnumeration, _validate_pull_operations_enabled), run in lock step  *)
(* with the requirement machine PullSrv.  TLC checks Impl => Req: every    *)
(* response the code-shaped machine computes has Fails = {} and the        *)
(* refinement mapping (remaining list -> remaining set) is maintained.     *)
(*                                                                         *)
(* LegacyPullZero = TRUE is the code before the "fix:" commit              *)
(* (`if not max_obj_cnt:` treats MaxObjectCount=0 like None); kept as a    *)
(* regression configuration that must FAIL (shows the check is sensitive). *)
(*                                                                         *)
(* Several servers (Srvs): every MainProvider object owns its context      *)
(* table (`self.enumeration_contexts = {}` in __init__); context ids are   *)
(* uuids, i.e. globally fresh (one counter).  Must-fail switches:          *)
(*   SharedContextTable  one table for all servers of the process (a       *)
(*                       mutable class attribute): foreign contexts are    *)
(*                       served and every server "holds" all sessions      *)
(*   ExpireSessions      _pull_response closes and refuses a session whose *)
(*                       idle time exceeds the stored OperationTimeout     *)
(*                       without special-casing 0 = "never": under the     *)
(*                       prompt-client assumption the idle time is a       *)
(*                       positive infinitesimal, so exactly the sessions   *)
(*                       opened with OperationTimeout=0 expire             *)
(***************************************************************************)
EXTENDS PullSrv, SequencesExt

CONSTANTS NObj, MaxId, Nss, Maxes, Kinds, Toggles,
          DefaultMax,          \* pywbem_mock.config.DEFAULT_MAX_OBJECT_COUNT
          LegacyPullZero,      \* BOOLEAN
          LegacyTrimRaw,       \* BOOLEAN: the stored rest of an open is cut with
                               \* the RAW MaxObjectCount parameter (None: all of
                               \* it is cut) instead of the defaulted one
          GenDepth,            \* > 0: emit call histories of that length
          Cover,               \* BOOLEAN: print every transition (workers 1)
          Srvs,                \* servers in the process: {1} or {1, 2}
          Ots,                 \* OperationTimeout values on Open
          Coes,                \* ContinueOnError values on Open
          Flts,                \* filter classes of the association opens
          SharedContextTable,  \* BOOLEAN (must-fail switch)
          ExpireSessions,      \* BOOLEAN (must-fail switch)
          RandArgs             \* BOOLEAN: simulation only - srv/ot/coe/flt of a call
                               \* are drawn with RandomElement instead of being
                               \* enumerated (keeps the successor sets small)

VARIABLES si,     \* implementation state
          s,      \* requirement state (lock step)
          bad,    \* Req clauses violated by the last implementation response
          hist,   \* call history (only when GenDepth > 0)
          pick    \* the random draw of the step (RandArgs only)
vars == <<si, s, bad, hist, pick>>

OtsOne == {NoOt}
OtsTwo == {NoOt, 0}
OtsAll == {NoOt, 0, 1, 40}
CoesOne == {NoCoe}
CoesTwo == {NoCoe, 1}
CoesAll == {NoCoe, 0, 1}
FltsOne == {NoFlt}
FltsAll == {NoFlt, 1, 2}
DefaultTimeout == 40               \* default_server_timeout in _open_response

MaxesSmall == {NoMax, 0, 1, 2, 5}
MaxesLarge == {NoMax, 0, 1, 2, 3, 7}
MaxesTiny == {NoMax, 0, 1, 5}

Results == {[i \in 1..n |-> i] : n \in 0..NObj}

ImplInit == [ctx |-> [v \in Srvs |-> << >>],    \* one table per MainProvider
             nextid |-> 1,
             liveNs |-> [v \in Srvs |-> Nss], pullOn |-> [v \in Srvs |-> TRUE]]

(* the table server v works on *)
First == CHOOSE x \in Srvs : \A y \in Srvs : x <= y
T(v) == IF SharedContextTable THEN First ELSE v

Err(code) == [ok |-> FALSE, code |-> code, objs |-> <<>>, eos |-> FALSE,
              ctx |-> 0]
Ok(objs, eos, c) == [ok |-> TRUE, code |-> 0, objs |-> objs, eos |-> eos,
                     ctx |-> c]
Take(q, n) == SubSeq(q, 1, IF n < Len(q) THEN n ELSE Len(q))
DropN(q, n) == SubSeq(q, n + 1, Len(q))
Without(f, id) == [x \in (DOMAIN f) \ {id} |-> f[x]]

(* _open_response.  The filter arguments (flt) do not appear: the Open...    *)
(* methods of the mock hand ALL arguments to the method of the traditional  *)
(* operation and page its result, i.e. `all` already is the filtered result *)
ImplOpen(st, v, k, ns, all, tradok, m, ot, coe) ==
  IF ~tradok \/ ns \notin st.liveNs[v] THEN <<Err(3), st>>  \* traditional op raised
  ELSE IF ~st.pullOn[v] THEN <<Err(7), st>>                  \* NOT_SUPPORTED
  ELSE LET mm == IF m = NoMax THEN DefaultMax ELSE m
           timeout == IF ot = NoOt THEN DefaultTimeout ELSE ot IN
       IF Len(all) <= mm THEN <<Ok(all, TRUE, 0), st>>
       ELSE LET id == st.nextid IN
            <<Ok(Take(all, mm), FALSE, id),
              [st EXCEPT !.nextid = @ + 1,
                         !.ctx[T(v)] =
                                 (id :> [kind |-> PullKindOf(k),
                                         data |-> IF LegacyTrimRaw /\ m = NoMax
                                                  THEN <<>> ELSE DropN(all, mm),
                                         ns |-> ns,
                                         interoptimeout |-> timeout,
                                         continueonerror |-> (coe = 1)]) @@ @]>>

(* _pull_response *)
ImplPull(st, v, pk, id, m) ==
  IF ~st.pullOn[v] THEN <<Err(7), st>>
  ELSE IF id \notin DOMAIN st.ctx[T(v)] THEN <<Err(InvalidEnumCtx), st>>
  ELSE LET c == st.ctx[T(v)][id] IN
       IF ExpireSessions /\ c.interoptimeout = 0     \* idle time > timeout
       THEN <<Err(InvalidEnumCtx), [st EXCEPT !.ctx[T(v)] = Without(@, id)]>>
       ELSE IF c.ns \notin st.liveNs[v] THEN <<Err(3), st>>  \* validate_namespace
       ELSE IF c.kind # pk THEN <<Err(InvalidEnumCtx), st>>
       ELSE LET mm == IF m = 0 /\ LegacyPullZero THEN DefaultMax ELSE m IN
            IF Len(c.data) <= mm
            THEN <<Ok(c.data, TRUE, 0),
                   [st EXCEPT !.ctx[T(v)] = Without(@, id)]>>
            ELSE <<Ok(Take(c.data, mm), FALSE, id),
                   [st EXCEPT !.ctx[T(v)][id].data = DropN(@, mm)]>>

(* CloseEnumeration *)
ImplClose(st, v, id) ==
  IF ~st.pullOn[v] THEN <<Err(7), st>>
  ELSE IF id \in DOMAIN st.ctx[T(v)]
       THEN <<Ok(<<>>, FALSE, 0), [st EXCEPT !.ctx[T(v)] = Without(@, id)]>>
       ELSE <<Err(InvalidEnumCtx), st>>

Call(op, v, k, ns, all, tradok, m, id, ot, coe, flt) ==
  [op |-> op, srv |-> v, k |-> k, ns |-> ns, all |-> all, tradok |-> tradok,
   m |-> m, id |-> id, ot |-> ot, coe |-> coe, flt |-> flt]

(* srv = 0 / ot, coe omitted: placeholders resolved by the random draw *)
SrvsGen == IF RandArgs THEN {0} ELSE Srvs
OtsGen  == IF RandArgs THEN {NoOt} ELSE Ots
CoesGen == IF RandArgs THEN {NoCoe} ELSE Coes
FltsGen(k) == IF RandArgs \/ k \notin AssocKinds THEN {NoFlt} ELSE Flts

Calls ==
  UNION {{Call("Open", v, k, ns, R, tok, m, 0, ot, coe, flt) :
      v \in SrvsGen, ns \in Nss, R \in Results, tok \in BOOLEAN,
      m \in Maxes, ot \in OtsGen, coe \in CoesGen, flt \in FltsGen(k)}
         : k \in Kinds}
  \cup {Call("Pull", v, pk, 0, <<>>, TRUE, m, id, NoOt, NoCoe, NoFlt) :
      v \in SrvsGen, pk \in {PullKindOf(k) : k \in Kinds} \cup {3},
      m \in Maxes \ {NoMax}, id \in 1..MaxId}
  \cup {Call("Close", v, 0, 0, <<>>, TRUE, 0, id, NoOt, NoCoe, NoFlt) :
      v \in SrvsGen, id \in 1..MaxId}
  \cup (IF Toggles
        THEN {Call("RemoveNs", v, 0, ns, <<>>, TRUE, 0, 0, NoOt, NoCoe, NoFlt) :
                 v \in SrvsGen, ns \in Nss}
             \cup {Call("SetPull", v, 0, 0, <<>>, b, 0, 0, NoOt, NoCoe, NoFlt) :
                 v \in SrvsGen, b \in BOOLEAN}
        ELSE {})

ImplStep(st, c) ==
  CASE c.op = "Open"  -> ImplOpen(st, c.srv, c.k, c.ns, c.all, c.tradok, c.m,
                                  c.ot, c.coe)
    [] c.op = "Pull"  -> ImplPull(st, c.srv, c.k, c.id, c.m)
    [] c.op = "Close" -> ImplClose(st, c.srv, c.id)
    [] c.op = "RemoveNs" ->
          <<Ok(<<>>, FALSE, 0), [st EXCEPT !.liveNs[c.srv] = @ \ {c.ns}]>>
    [] c.op = "SetPull" ->
          <<[Ok(<<>>, FALSE, 0) EXCEPT !.ok = c.tradok],
            [st EXCEPT !.pullOn[c.srv] = c.tradok]>>

Event(c, r, st2) ==
  [op |-> c.op, srv |-> c.srv, k |-> c.k, ns |-> c.ns, all |-> c.all,
   tradok |-> c.tradok, m |-> c.m, id |-> c.id, ot |-> c.ot, coe |-> c.coe,
   flt |-> c.flt,
   ok |-> r.ok, code |-> r.code, objs |-> r.objs,
   eos |-> r.eos, ctx |-> r.ctx,
   nctx |-> Cardinality(DOMAIN st2.ctx[T(c.srv)])]

NoPick == [srv |-> 0, ot |-> NoOt, coe |-> NoCoe, far |-> 0, flt |-> NoFlt]
Init == /\ si = ImplInit /\ s = InitState(Nss, Srvs) /\ bad = {} /\ hist = <<>>
        /\ pick = NoPick

(* simulation: the server of a Pull/Close is the owner of the context in 3 *)
(* of 4 draws (own session) and a random server otherwise (foreign)        *)
OwnerOf(st, id, dflt) ==
  LET o == {v \in Srvs : id \in DOMAIN st.ctx[v]} IN
  IF o = {} THEN dflt ELSE CHOOSE v \in o : TRUE
Resolve(c, p) ==
  IF ~RandArgs THEN c
  ELSE IF c.op = "Open"
       THEN [c EXCEPT !.srv = p.srv, !.ot = p.ot, !.coe = p.coe,
                      !.flt = IF c.k \in AssocKinds THEN p.flt ELSE NoFlt]
  ELSE IF c.op \in {"Pull", "Close"}
       THEN [c EXCEPT !.srv = IF p.far = 1 THEN p.srv
                              ELSE OwnerOf(si, c.id, p.srv)]
  ELSE [c EXCEPT !.srv = p.srv]

Do(c0) ==
  /\ pick' = IF RandArgs
             THEN [srv |-> RandomElement(Srvs), ot |-> RandomElement(Ots),
                   coe |-> RandomElement(Coes), far |-> RandomElement(1..4),
                   flt |-> RandomElement(Flts)]
             ELSE pick
  /\ LET c  == Resolve(c0, pick')
         rs == ImplStep(si, c)
         e  == Event(c, rs[1], rs[2]) IN
         /\ si' = rs[2]
         /\ bad' = Fails(s, e)
         /\ s' = Apply(s, e)
         /\ hist' = IF GenDepth > 0 THEN Append(hist, c) ELSE hist
         /\ (IF Cover THEN PrintT(<<"TR", si, c, rs[2]>>) ELSE TRUE)

Next == /\ si.nextid <= MaxId
        /\ \E c \in Calls : Do(c)

Spec == Init /\ [][Next]_vars

ImplRefinesReq == bad = {}
MappingHolds ==
  \A v \in Srvs :
  /\ DOMAIN si.ctx[v] = Own(s, v)
  /\ \A id \in DOMAIN si.ctx[v] :
        /\ Rng(si.ctx[v][id].data) = s.ctx[id].rem
        /\ si.ctx[v][id].kind = s.ctx[id].kind
SessionHolds == SessionInv(s)

(* behaviour emission for the spec -> code replay *)
Emit == (GenDepth > 0 /\ Len(hist) = GenDepth) => PrintT(<<"BEH", hist>>)
GenConstraint == GenDepth = 0 \/ Len(hist) <= GenDepth
=============================================================================
