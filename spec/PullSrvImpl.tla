---------------------------- MODULE PullSrvImpl ----------------------------
(***************************************************************************)
(* Code-shaped machine of the mock server's pull support                   *)
(* (pywbem_mock/_mainprovider.py: _open_response, _pull_response,          *)
(* CloseEnumeration, _validate_pull_operations_enabled), run in lock step  *)
(* with the requirement machine PullSrv.  TLC checks Impl => Req: every    *)
(* response the code-shaped machine computes has Fails = {} and the        *)
(* refinement mapping (remaining list -> remaining set) is maintained.     *)
(*                                                                         *)
(* LegacyPullZero = TRUE is the code before the "fix:" commit              *)
(* (`if not max_obj_cnt:` treats MaxObjectCount=0 like None); kept as a    *)
(* regression configuration that must FAIL (shows the check is sensitive). *)
(***************************************************************************)
EXTENDS PullSrv, SequencesExt

CONSTANTS NObj, MaxId, Nss, Maxes, Kinds, Toggles,
          DefaultMax,          \* pywbem_mock.config.DEFAULT_MAX_OBJECT_COUNT
          LegacyPullZero,      \* BOOLEAN
          LegacyTrimRaw,       \* BOOLEAN: the stored rest of an open is cut with
                               \* the RAW MaxObjectCount parameter (None: all of
                               \* it is cut) instead of the defaulted one
          GenDepth,            \* > 0: emit call histories of that length
          Cover                \* BOOLEAN: print every transition (workers 1)

VARIABLES si,     \* implementation state
          s,      \* requirement state (lock step)
          bad,    \* Req clauses violated by the last implementation response
          hist    \* call history (only when GenDepth > 0)
vars == <<si, s, bad, hist>>

MaxesSmall == {NoMax, 0, 1, 2, 5}
MaxesLarge == {NoMax, 0, 1, 2, 3, 7}

Results == {[i \in 1..n |-> i] : n \in 0..NObj}

ImplInit == [ctx |-> << >>, nextid |-> 1, liveNs |-> Nss, pullOn |-> TRUE]

Err(code) == [ok |-> FALSE, code |-> code, objs |-> <<>>, eos |-> FALSE,
              ctx |-> 0]
Ok(objs, eos, c) == [ok |-> TRUE, code |-> 0, objs |-> objs, eos |-> eos,
                     ctx |-> c]
Take(q, n) == SubSeq(q, 1, IF n < Len(q) THEN n ELSE Len(q))
DropN(q, n) == SubSeq(q, n + 1, Len(q))
Without(f, id) == [x \in (DOMAIN f) \ {id} |-> f[x]]

(* _open_response *)
ImplOpen(st, k, ns, all, tradok, m) ==
  IF ~tradok \/ ns \notin st.liveNs THEN <<Err(3), st>>     \* traditional op raised
  ELSE IF ~st.pullOn THEN <<Err(7), st>>                     \* NOT_SUPPORTED
  ELSE LET mm == IF m = NoMax THEN DefaultMax ELSE m IN
       IF Len(all) <= mm THEN <<Ok(all, TRUE, 0), st>>
       ELSE LET id == st.nextid IN
            <<Ok(Take(all, mm), FALSE, id),
              [st EXCEPT !.nextid = @ + 1,
                         !.ctx = (id :> [kind |-> PullKindOf(k),
                                         data |-> IF LegacyTrimRaw /\ m = NoMax
                                                  THEN <<>> ELSE DropN(all, mm),
                                         ns |-> ns]) @@ @]>>

(* _pull_response *)
ImplPull(st, pk, id, m) ==
  IF ~st.pullOn THEN <<Err(7), st>>
  ELSE IF id \notin DOMAIN st.ctx THEN <<Err(InvalidEnumCtx), st>>
  ELSE LET c == st.ctx[id] IN
       IF c.ns \notin st.liveNs THEN <<Err(3), st>>          \* validate_namespace
       ELSE IF c.kind # pk THEN <<Err(InvalidEnumCtx), st>>
       ELSE LET mm == IF m = 0 /\ LegacyPullZero THEN DefaultMax ELSE m IN
            IF Len(c.data) <= mm
            THEN <<Ok(c.data, TRUE, 0), [st EXCEPT !.ctx = Without(@, id)]>>
            ELSE <<Ok(Take(c.data, mm), FALSE, id),
                   [st EXCEPT !.ctx[id].data = DropN(@, mm)]>>

(* CloseEnumeration *)
ImplClose(st, id) ==
  IF ~st.pullOn THEN <<Err(7), st>>
  ELSE IF id \in DOMAIN st.ctx
       THEN <<Ok(<<>>, FALSE, 0), [st EXCEPT !.ctx = Without(@, id)]>>
       ELSE <<Err(InvalidEnumCtx), st>>

Call(op, k, ns, all, tradok, m, id) ==
  [op |-> op, k |-> k, ns |-> ns, all |-> all, tradok |-> tradok, m |-> m,
   id |-> id]

Calls ==
  {Call("Open", k, ns, R, tok, m, 0) :
      k \in Kinds, ns \in Nss, R \in Results, tok \in BOOLEAN, m \in Maxes}
  \cup {Call("Pull", pk, 0, <<>>, TRUE, m, id) :
      pk \in {PullKindOf(k) : k \in Kinds} \cup {3},
      m \in Maxes \ {NoMax}, id \in 1..MaxId}
  \cup {Call("Close", 0, 0, <<>>, TRUE, 0, id) : id \in 1..MaxId}
  \cup (IF Toggles
        THEN {Call("RemoveNs", 0, ns, <<>>, TRUE, 0, 0) : ns \in Nss}
             \cup {Call("SetPull", 0, 0, <<>>, b, 0, 0) : b \in BOOLEAN}
        ELSE {})

ImplStep(st, c) ==
  CASE c.op = "Open"  -> ImplOpen(st, c.k, c.ns, c.all, c.tradok, c.m)
    [] c.op = "Pull"  -> ImplPull(st, c.k, c.id, c.m)
    [] c.op = "Close" -> ImplClose(st, c.id)
    [] c.op = "RemoveNs" ->
          <<Ok(<<>>, FALSE, 0), [st EXCEPT !.liveNs = @ \ {c.ns}]>>
    [] c.op = "SetPull" ->
          <<[Ok(<<>>, FALSE, 0) EXCEPT !.ok = c.tradok],
            [st EXCEPT !.pullOn = c.tradok]>>

Event(c, r, st2) ==
  [op |-> c.op, k |-> c.k, ns |-> c.ns, all |-> c.all, tradok |-> c.tradok,
   m |-> c.m, id |-> c.id, ok |-> r.ok, code |-> r.code, objs |-> r.objs,
   eos |-> r.eos, ctx |-> r.ctx, nctx |-> Cardinality(DOMAIN st2.ctx)]

Init == /\ si = ImplInit /\ s = InitState(Nss) /\ bad = {} /\ hist = <<>>

Do(c) == LET rs == ImplStep(si, c)
             e  == Event(c, rs[1], rs[2]) IN
         /\ si' = rs[2]
         /\ bad' = Fails(s, e)
         /\ s' = Apply(s, e)
         /\ hist' = IF GenDepth > 0 THEN Append(hist, c) ELSE hist
         /\ (IF Cover THEN PrintT(<<"TR", si, c, rs[2]>>) ELSE TRUE)

Next == /\ si.nextid <= MaxId
        /\ \E c \in Calls : Do(c)

Spec == Init /\ [][Next]_vars

ImplRefinesReq == bad = {}
MappingHolds ==
  /\ DOMAIN si.ctx = Open(s)
  /\ \A id \in DOMAIN si.ctx :
        /\ Rng(si.ctx[id].data) = s.ctx[id].rem
        /\ si.ctx[id].kind = s.ctx[id].kind
SessionHolds == SessionInv(s)

(* behaviour emission for the spec -> code replay *)
Emit == (GenDepth > 0 /\ Len(hist) = GenDepth) => PrintT(<<"BEH", hist>>)
GenConstraint == GenDepth = 0 \/ Len(hist) <= GenDepth
=============================================================================
