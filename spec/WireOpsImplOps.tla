---------------------------- MODULE WireOpsImplOps ----------------------------
(***************************************************************************)
(* C03 - code-shaped transcription of how pywbem assembles a request       *)
(* (pure operators; WireOpsImpl model-checks them, WireOpsTrace compares    *)
(* them with the documents captured from the real code = impl drift).      *)
(*                                                                         *)
(* Transcribed:  WBEMConnection.<operation> argument normalisation         *)
(* (_iparam_*, namespace resolution), _imethodcall / _methodcall /         *)
(* _iexportcall envelopes, the Iter... -> Open.../traditional delegation,   *)
(* get_cimobject_header, and tocimxml() of CIMClassName, CIMInstanceName,  *)
(* CIMInstance, CIMClass, CIMProperty, CIMMethod, CIMParameter,            *)
(* CIMQualifier, CIMQualifierDeclaration over a small shape vocabulary.    *)
(*                                                                         *)
(* A case is [op, pull, dflt, ns, args]; args are aligned with             *)
(* OpTable[op].params; every argument is a record [f, kb, pr, x]           *)
(* (form, keybinding kinds, property/parameter shapes, extra flags).       *)
(* Names are the fixed lower-case vocabulary the harness concretises with  *)
(* (it randomises lexical case; the projection case-folds).                *)
(*                                                                         *)
(* Besides the requests there is the object case space ObjCases:           *)
(* tocimxml() / tocimxmlstr() of CIMInstanceName, CIMClassName,            *)
(* CIMInstance, CIMClass, CIMProperty, CIMParameter over path shape (none  *)
(* / keys / ns / host / ns+host) x ignore_host / ignore_namespace /        *)
(* ignore_path x reference values of every path shape (RefSpec) in         *)
(* keybindings, properties and parameter values.                           *)
(***************************************************************************)
EXTENDS WireOps

(* V (last parameter of ImplReq etc.) is a set of flags selecting the        *)
(* variant of the design:                                                    *)
(*   {}              the repaired design                                     *)
(*   "export_path"   ExportIndication passes the instance on with its path   *)
(*                   (VALUE.NAMEDINSTANCE ... inside EXPPARAMVALUE)          *)
(*   "real_repr"     to_wbem_uri() renders Real32/Real64 keys with repr()    *)
(*   "scope_any"     SCOPE gets an ANY attribute for an explicit ANY: False  *)
(*                   (these three are how the originally pinned tree does it)*)
(*   "keephost", "hdr_before_default", "minst_order": realistic regressions  *)
(*   "ns_drop_empty" tocimxml() of CIMClassName / CIMInstanceName skips      *)
(*                   empty namespace components ("tolerate duplicate         *)
(*                   slashes"), while _imethodcall and the CIMObject header  *)
(*                   keep them                                               *)
(*   "wrap_host_first" CIMInstance.tocimxml() picks the wrapper element by    *)
(*                   testing the host first, then the namespace (a path with *)
(*                   a host but no namespace gives VALUE.INSTANCEWITHPATH    *)
(*                   around a bare INSTANCENAME)                             *)
(*   "name_host_first" tocimxml() of CIMInstanceName / CIMClassName tests    *)
(*                   the host first: INSTANCEPATH / CLASSPATH whenever a     *)
(*                   host is there, with the namespace components that are   *)
(*                   there (none without a namespace or with                 *)
(*                   ignore_namespace)                                       *)
(*   "ns_shared"     the LOCALNAMESPACEPATH element of a namespace is built   *)
(*                   once and shared ("cached"): a DOM node has ONE parent,  *)
(*                   so of several paths of one document that lie in the     *)
(*                   same namespace only the one built last keeps it         *)
Pinned == {"export_path", "real_repr", "scope_any"}
Flags == Pinned \cup {"keephost", "hdr_before_default", "minst_order",
                      "ns_drop_empty", "wrap_host_first", "name_host_first",
                      "ns_shared", "refarray_inst_first", "edge_rstrip"}

Arg(f, kb, pr, x) == [f |-> f, kb |-> kb, pr |-> pr, x |-> x]
A0(f) == Arg(f, <<>>, <<>>, <<>>)
NoneArg == A0("none")

El(t, a, c, x) == [t |-> t, a |-> a, c |-> c, x |-> x]
Has(flags, f) == \E i \in DOMAIN flags : flags[i] = f
Cat(ss) == LET RECURSIVE C(_)
               C(i) == IF i > Len(ss) THEN <<>> ELSE ss[i] \o C(i + 1)
           IN C(1)
OptAttr(cond, n, v) == IF cond THEN <<<<n, v>>>> ELSE <<>>

Val      == El("VALUE", <<>>, <<>>, "text")
ValEmpty == El("VALUE", <<>>, <<>>, "none")
ValNull  == El("VALUE.NULL", <<>>, <<>>, "none")
ValArray(kids) == El("VALUE.ARRAY", <<>>, kids, "none")

(* ---- namespaces ---------------------------------------------------------- *)
(* A namespace is a string; the setters strip leading and trailing slashes  *)
(* and everything that writes it (tocimxml() of names, _imethodcall, the    *)
(* CIMObject header) splits it at "/".  Value classes of the stored string: *)
(*   plain   "nsd", "root/nsd"   every component non-empty                   *)
(*   empty   ""  (given as "", "/", "//", ...): splitting yields ONE empty  *)
(*           component, i.e. <NAMESPACE NAME=""/> (LOCALNAMESPACEPATH needs  *)
(*           NAMESPACE+) and an empty namespace part in CIMObject            *)
(*   gap     "root//nsd": an empty component between non-empty ones          *)
(* pywbem accepts all three for the default namespace, the `namespace`      *)
(* argument, the namespace of object names / instance paths / reference     *)
(* values and the namespace of an enumeration context.                       *)
EmptyTok == "#empty"            \* token of the empty string (wirecap.Projector)
NsClasses == {"plain", "empty", "gap"}
NsClassOf(ns) ==
  IF \A i \in DOMAIN ns : ns[i] # EmptyTok THEN "plain"
  ELSE IF ns = <<EmptyTok>> THEN "empty" ELSE "gap"

NsTok(id) ==
  CASE id = "d1" -> <<"nsd">>
    [] id = "d2" -> <<"root", "nsd">>
    [] id = "a1" -> <<"nsa">>
    [] id \in {"a2", "a2s"} -> <<"root", "nsa">>
    [] id = "o" -> <<"root", "nso">>
    [] id = "c" -> <<"root", "nsc">>
    [] id = "r" -> <<"root", "nsr">>
    [] id \in {"de", "ae", "oe", "ce", "re"} -> <<EmptyTok>>
    [] id = "dg" -> <<"root", EmptyTok, "nsd">>
    [] id = "ag" -> <<"root", EmptyTok, "nsa">>
    [] id = "og" -> <<"root", EmptyTok, "nso">>
    [] id = "cg" -> <<"root", EmptyTok, "nsc">>
    [] id = "rg" -> <<"root", EmptyTok, "nsr">>

NsIds == {"d1", "d2", "a1", "a2", "a2s", "o", "c", "r", "de", "ae", "oe", "ce",
          "re", "dg", "ag", "og", "cg", "rg"}

NsPath(ns) ==
  El("LOCALNAMESPACEPATH", <<>>,
     [i \in DOMAIN ns |-> El("NAMESPACE", <<<<"NAME", ns[i]>>>>, <<>>, "none")],
     "none")
HostEl == El("HOST", <<>>, <<>>, "text")
NsPathH(ns) == El("NAMESPACEPATH", <<>>, <<HostEl, NsPath(ns)>>, "none")

(* ---- object names --------------------------------------------------------- *)
KeyNames == <<"k1", "k2", "k3">>

KeyVal(vt, ty) ==
  El("KEYVALUE", <<<<"VALUETYPE", vt>>>> \o OptAttr(ty # "", "TYPE", ty),
     <<>>, "text")

ClassNameTree(cls) == El("CLASSNAME", <<<<"NAME", cls>>>>, <<>>, "none")

(* ---- path shapes ------------------------------------------------------------ *)
(* Everything that HAS a path (CIMInstance, CIMClass) or IS a path           *)
(* (CIMInstanceName, CIMClassName; also as reference value in keybindings,   *)
(* properties and method parameters) comes in one of five path shapes:       *)
(*   none    no path at all (instances / classes only)     form "nopath"     *)
(*   keys    the name alone (class name [+ keybindings])   forms "in" "cn"   *)
(*   ns      + namespace                                   "in_ns" "cn_ns"   *)
(*   host    + host but NO namespace                       "in_h" "cn_h"     *)
(*   nshost  + namespace and host                          "in_ns_h" ...     *)
(* DSP0203 has no element for "host without namespace": NAMESPACEPATH is     *)
(* (HOST, LOCALNAMESPACEPATH) and LOCALNAMESPACEPATH needs NAMESPACE+, the    *)
(* wrappers VALUE.INSTANCEWITHPATH / VALUE.OBJECTWITHLOCALPATH need           *)
(* INSTANCEPATH / LOCALINSTANCEPATH.  pywbem therefore tests the namespace   *)
(* FIRST and lets the host count only below a namespace: shape "host" is     *)
(* written like shape "keys".  The arguments ignore_host / ignore_namespace  *)
(* (names) and ignore_path (instances) reduce the shape before that.         *)
PathShapes == {"none", "keys", "ns", "host", "nshost"}
InstForms == {"in", "in_ns", "in_h", "in_ns_h"}
ClassForms == {"cn", "cn_ns", "cn_h", "cn_ns_h"}
IsInstForm(f) == f \in InstForms
IsClassForm(f) == f \in ClassForms \cup {"str"}
HasNs(f) == f \in {"cn_ns", "cn_ns_h", "in_ns", "in_ns_h"}
HasHost(f) == f \in {"cn_h", "cn_ns_h", "in_h", "in_ns_h"}
PathShapeOf(f) ==
  IF f = "nopath" THEN "none"
  ELSE IF HasNs(f) THEN (IF HasHost(f) THEN "nshost" ELSE "ns")
  ELSE IF HasHost(f) THEN "host" ELSE "keys"

IgnoreFlags == {"ignore_host", "ignore_namespace", "ignore_path"}

(* tocimxml(ignore_host, ignore_namespace) of a CIMInstanceName /            *)
(* CIMClassName of form f around its INSTANCENAME / CLASSNAME element `leaf` *)
(* (ign: sequence of ignore flags; V: design variant)                        *)
PathWrap(f, leaf, ns, ign, V) ==
  LET useNs == HasNs(f) /\ ~Has(ign, "ignore_namespace")
      useHost == HasHost(f) /\ ~Has(ign, "ignore_host")
      L == IF IsInstForm(f) THEN "LOCALINSTANCEPATH" ELSE "LOCALCLASSPATH"
      G == IF IsInstForm(f) THEN "INSTANCEPATH" ELSE "CLASSPATH" IN
  IF "name_host_first" \in V /\ useHost
  THEN El(G, <<>>, <<NsPathH(IF useNs THEN ns ELSE <<>>), leaf>>, "none")
  ELSE IF ~useNs THEN leaf
  ELSE IF ~useHost THEN El(L, <<>>, <<NsPath(ns), leaf>>, "none")
  ELSE El(G, <<>>, <<NsPathH(ns), leaf>>, "none")

(* ---- reference values -------------------------------------------------------- *)
(* A reference value is a CIMInstanceName (k = "i": class refcls, one key rk) *)
(* or a CIMClassName (k = "c": refcls) of path form f with namespace id ns;   *)
(* deep # "": the key rk is itself a reference value of that shape (paths at  *)
(* depth 2), else the string "refval".  The same shapes are used wherever a   *)
(* reference value can stand: keybindings (k = "i" only: pywbem refuses class *)
(* names there), reference properties, method parameters (scalar and array). *)
RefSpec(sh) ==
  LET R(k, f, ns, deep) == [k |-> k, f |-> f, ns |-> ns, deep |-> deep] IN
  CASE sh \in {"ref", "refi"} -> R("i", "in", "", "")
    [] sh = "refl"   -> R("i", "in_ns", "r", "")
    [] sh = "refo"   -> R("i", "in_h", "", "")
    [] sh = "refh"   -> R("i", "in_ns_h", "r", "")
    [] sh = "refle"  -> R("i", "in_ns", "re", "")     \* boundary namespaces
    [] sh = "reflg"  -> R("i", "in_ns", "rg", "")
    [] sh = "refhe"  -> R("i", "in_ns_h", "re", "")
    [] sh = "refdo"  -> R("i", "in", "", "refo")      \* paths at depth 2
    [] sh = "refdh"  -> R("i", "in", "", "refh")
    [] sh = "refhdo" -> R("i", "in_ns_h", "r", "refo")
    [] sh = "reflo"  -> R("i", "in_ns", "o", "")      \* coinciding namespaces:
    [] sh = "refho"  -> R("i", "in_ns_h", "o", "")    \* see "coincidence" below
    [] sh = "refld"  -> R("i", "in_ns", "d2", "")
    [] sh = "refll"  -> R("i", "in_ns", "r", "refl")
    [] sh = "refc"   -> R("c", "cn", "", "")
    [] sh = "refcl"  -> R("c", "cn_ns", "r", "")
    [] sh = "refco"  -> R("c", "cn_h", "", "")
    [] sh = "refch"  -> R("c", "cn_ns_h", "r", "")
    [] sh = "refcle" -> R("c", "cn_ns", "re", "")
    [] sh = "refcld" -> R("c", "cn_ns", "d2", "")

InstRefShapes == {"ref", "refl", "refo", "refh", "refle", "reflg", "refhe",
                  "refdo", "refdh", "refhdo", "reflo", "refho", "refld",
                  "refll"}
ClassRefShapes == {"refc", "refcl", "refco", "refch", "refcle", "refcld"}
RefShapes == InstRefShapes \cup ClassRefShapes

RECURSIVE RefTarget(_)
RefTarget(sh) ==
  LET s == RefSpec(sh)
      key == IF s.deep = "" THEN KeyVal("string", "string")
             ELSE El("VALUE.REFERENCE", <<>>, <<RefTarget(s.deep)>>, "none")
      leaf == IF s.k = "i"
              THEN El("INSTANCENAME", <<<<"CLASSNAME", "refcls">>>>,
                      <<El("KEYBINDING", <<<<"NAME", "rk">>>>, <<key>>,
                           "none")>>, "none")
              ELSE ClassNameTree("refcls") IN
  PathWrap(s.f, leaf, IF s.ns = "" THEN <<>> ELSE NsTok(s.ns), <<>>, {})

RefVal(sh) == El("VALUE.REFERENCE", <<>>, <<RefTarget(sh)>>, "none")

KeyValTree(kind) ==
  CASE kind = "s"   -> KeyVal("string", "string")
    [] kind = "c16" -> KeyVal("string", "char16")
    [] kind = "dt"  -> KeyVal("string", "datetime")
    [] kind = "b"   -> KeyVal("boolean", "boolean")
    [] kind = "u8"  -> KeyVal("numeric", "uint8")
    [] kind = "s64" -> KeyVal("numeric", "sint64")
    [] kind = "r32" -> KeyVal("numeric", "real32")
    [] kind = "n"   -> KeyVal("numeric", "")       \* plain int / float: no TYPE
    [] kind \in InstRefShapes -> RefVal(kind)

InstNameTree(cls, kb) ==
  El("INSTANCENAME", <<<<"CLASSNAME", cls>>>>,
     [i \in DOMAIN kb |->
        El("KEYBINDING", <<<<"NAME", KeyNames[i]>>>>,
           <<KeyValTree(kb[i])>>, "none")], "none")

(* namespace of an object name / instance path that has one: flag "nse"    *)
(* (the empty namespace) or "nsg" (empty inner component) in a.x, else the  *)
(* plain "root/nso"                                                          *)
ONs(a) == IF Has(a.x, "nse") THEN NsTok("oe")
          ELSE IF Has(a.x, "nsg") THEN NsTok("og") ELSE NsTok("o")

(* tocimxml(ignore_host, ignore_namespace) of a CIMClassName /              *)
(* CIMInstanceName as given (with path)                                     *)
NameXml(f, cls, kb, ns, ign, V) ==
  PathWrap(f, IF IsInstForm(f) THEN InstNameTree(cls, kb)
              ELSE ClassNameTree(cls), ns, ign, V)
NameWithPath(f, cls, kb, ns) == NameXml(f, cls, kb, ns, <<>>, {})

(* ---- qualifiers ------------------------------------------------------------ *)
QualTree(name, sh) ==
  LET ty == IF sh = "qb" THEN "boolean" ELSE IF sh = "qu" THEN "uint32"
            ELSE "string"
      fl == IF sh = "qfl"
            THEN <<<<"PROPAGATED", "false">>, <<"OVERRIDABLE", "true">>,
                   <<"TOSUBCLASS", "false">>, <<"TOINSTANCE", "true">>,
                   <<"TRANSLATABLE", "false">>>>
            ELSE <<>>
      kids == CASE sh = "qnull" -> <<>>
                [] sh = "qa" -> <<ValArray(<<Val, Val>>)>>
                [] sh = "qan" -> <<ValArray(<<Val, ValNull>>)>>
                [] OTHER -> <<Val>> IN
  El("QUALIFIER", <<<<"NAME", name>>, <<"TYPE", ty>>>> \o fl, kids, "none")

QualShapes == {"q", "qb", "qu", "qa", "qan", "qnull", "qfl"}

(* ---- properties ------------------------------------------------------------ *)
PropNames == <<"p1", "p2", "p3">>

EmbVal == Val      \* embedded object: XML text of the object inside VALUE

PropTree(name, sh) ==
  LET N == <<<<"NAME", name>>>>
      P(ty, extra, kids) ==
        El("PROPERTY", N \o <<<<"TYPE", ty>>>> \o extra, kids, "none")
      PA(ty, extra, kids) ==
        El("PROPERTY.ARRAY", N \o <<<<"TYPE", ty>>>> \o extra, kids, "none")
      PR(extra, kids) == El("PROPERTY.REFERENCE", N \o extra, kids, "none")
      Q1 == QualTree("q1", "q")
      RefValI == RefVal("ref")
  IN
  CASE sh = "s"      -> P("string", <<>>, <<Val>>)
    [] sh = "snull"  -> P("string", <<>>, <<>>)
    [] sh = "sempty" -> P("string", <<>>, <<ValEmpty>>)
    [] sh = "u8"     -> P("uint8", <<>>, <<Val>>)
    [] sh = "s64"    -> P("sint64", <<>>, <<Val>>)
    [] sh = "b"      -> P("boolean", <<>>, <<Val>>)
    [] sh = "dt"     -> P("datetime", <<>>, <<Val>>)
    [] sh = "r64"    -> P("real64", <<>>, <<Val>>)
    [] sh = "c16"    -> P("char16", <<>>, <<Val>>)
    [] sh = "s+"     -> P("string", <<<<"CLASSORIGIN", "ocls">>,
                                    <<"PROPAGATED", "true">>>>, <<Val>>)
    [] sh = "s-"     -> P("string", <<<<"PROPAGATED", "false">>>>, <<Val>>)
    [] sh = "sq"     -> P("string", <<>>, <<Q1, Val>>)
    [] sh = "ei"     -> P("string", <<<<"EmbeddedObject", "instance">>>>,
                          <<EmbVal>>)
    [] sh = "eo"     -> P("string", <<<<"EmbeddedObject", "object">>>>,
                          <<EmbVal>>)
    [] sh = "einull" -> P("string", <<<<"EmbeddedObject", "instance">>>>, <<>>)
    [] sh = "as"     -> PA("string", <<>>, <<ValArray(<<Val>>)>>)
    [] sh = "au8"    -> PA("uint8", <<>>, <<ValArray(<<Val, Val>>)>>)
    [] sh = "aempty" -> PA("string", <<>>, <<ValArray(<<>>)>>)
    [] sh = "anull"  -> PA("string", <<>>, <<ValArray(<<Val, ValNull>>)>>)
    [] sh = "anone"  -> PA("string", <<>>, <<>>)
    [] sh = "asz"    -> PA("string", <<<<"ARRAYSIZE", "5">>>>,
                           <<ValArray(<<Val>>)>>)
    [] sh = "a+"     -> PA("string", <<<<"CLASSORIGIN", "ocls">>,
                                      <<"PROPAGATED", "true">>>>,
                           <<ValArray(<<Val>>)>>)
    [] sh = "aei"    -> PA("string", <<<<"EmbeddedObject", "instance">>>>,
                           <<ValArray(<<EmbVal, EmbVal>>)>>)
    [] sh = "aq"     -> PA("string", <<>>, <<Q1, ValArray(<<Val>>)>>)
    [] sh = "refnull" -> PR(<<>>, <<>>)
    [] sh = "refrc"  -> PR(<<<<"REFERENCECLASS", "refcls">>>>, <<RefValI>>)
    [] sh = "ref+"   -> PR(<<<<"CLASSORIGIN", "ocls">>,
                             <<"PROPAGATED", "true">>>>, <<RefValI>>)
    [] sh = "refq"   -> PR(<<>>, <<Q1, RefValI>>)
    [] sh \in RefShapes -> PR(<<>>, <<RefVal(sh)>>)  \* every path shape

PropShapes == {"s", "snull", "sempty", "u8", "s64", "b", "dt", "r64", "c16",
               "s+", "s-", "sq", "ei", "eo", "einull", "as", "au8", "aempty",
               "anull", "anone", "asz", "a+", "aei", "aq", "refnull",
               "refrc", "ref+", "refq"} \cup RefShapes

PropTrees(pr) == [i \in DOMAIN pr |-> PropTree(PropNames[i], pr[i])]

(* ---- instances -------------------------------------------------------------- *)
(* x flags that are qualifier shapes: object-level qualifiers q1, q2, ...     *)
QNames == <<"q1", "q2", "q3">>
ObjQuals(x) ==
  LET qs == SelectSeq(x, LAMBDA f : f \in QualShapes) IN
  [i \in DOMAIN qs |-> QualTree(QNames[i], qs[i])]

InstanceTree(a) ==
  El("INSTANCE", <<<<"CLASSNAME", "icls">>>>,
     ObjQuals(a.x) \o PropTrees(a.pr), "none")

(* CIMInstance.tocimxml(ignore_path) honouring its path (form in a.f, keys *)
(* in a.kb): the wrapper follows what the path's own tocimxml() yields,     *)
(* i.e. namespace first, host only below a namespace                         *)
InstanceXml(a, ign, V) ==
  LET i == InstanceTree(a)
      w == IF "wrap_host_first" \in V
           THEN (IF HasHost(a.f) THEN "VALUE.INSTANCEWITHPATH"
                 ELSE IF HasNs(a.f) THEN "VALUE.OBJECTWITHLOCALPATH"
                 ELSE "VALUE.NAMEDINSTANCE")
           ELSE (IF ~HasNs(a.f) THEN "VALUE.NAMEDINSTANCE"
                 ELSE IF ~HasHost(a.f) THEN "VALUE.OBJECTWITHLOCALPATH"
                 ELSE "VALUE.INSTANCEWITHPATH") IN
  IF a.f = "nopath" \/ Has(ign, "ignore_path") THEN i
  ELSE El(w, <<>>, <<NameXml(a.f, "icls", a.kb, ONs(a), <<>>, V), i>>, "none")

InstanceWithPath(a) == InstanceXml(a, <<>>, {})

(* ---- classes ---------------------------------------------------------------- *)
ParamTree(name, sh) ==
  LET N == <<<<"NAME", name>>>>
      Q == IF sh \in {"pq"} THEN <<QualTree("q1", "q")>> ELSE <<>> IN
  CASE sh \in {"p", "pq"} ->
         El("PARAMETER", N \o <<<<"TYPE", "string">>>>, Q, "none")
    [] sh = "pu" -> El("PARAMETER", N \o <<<<"TYPE", "uint32">>>>, <<>>, "none")
    [] sh = "pr" -> El("PARAMETER.REFERENCE", N, <<>>, "none")
    [] sh = "prc" -> El("PARAMETER.REFERENCE",
                        N \o <<<<"REFERENCECLASS", "refcls">>>>, <<>>, "none")
    [] sh = "pa" -> El("PARAMETER.ARRAY", N \o <<<<"TYPE", "string">>>>,
                       <<>>, "none")
    [] sh = "pasz" -> El("PARAMETER.ARRAY",
                         N \o <<<<"TYPE", "string">>, <<"ARRAYSIZE", "5">>>>,
                         <<>>, "none")
    [] sh = "pra" -> El("PARAMETER.REFARRAY", N, <<>>, "none")
    [] sh = "prasz" -> El("PARAMETER.REFARRAY",
                          N \o <<<<"REFERENCECLASS", "refcls">>,
                                 <<"ARRAYSIZE", "5">>>>, <<>>, "none")

ParamShapes == {"p", "pq", "pu", "pr", "prc", "pa", "pasz", "pra", "prasz"}
ParNames == <<"pa1", "pa2", "pa3", "pa4">>

(* method shape = sequence: <<flagword, param shapes...>>;                  *)
(* flagword "m" plain, "m+" class origin/propagated, "mq" with qualifier   *)
MethodTree(name, m) ==
  El("METHOD",
     <<<<"NAME", name>>, <<"TYPE", "uint32">>>>
       \o (IF m[1] = "m+" THEN <<<<"CLASSORIGIN", "ocls">>,
                                 <<"PROPAGATED", "false">>>> ELSE <<>>),
     (IF m[1] = "mq" THEN <<QualTree("q1", "q")>> ELSE <<>>)
       \o [i \in 1..(Len(m) - 1) |-> ParamTree(ParNames[i], m[i + 1])],
     "none")

MethNames == <<"m1", "m2">>

(* class argument: pr = property shapes, kb = <<method1 flagword, params..>>,*)
(* x flags: "super" superclass, qualifier shapes = class qualifiers, "m2" a   *)
(* second, plain method                                                      *)
ClassTree(a) ==
  El("CLASS",
     <<<<"NAME", "ccls">>>> \o OptAttr(Has(a.x, "super"), "SUPERCLASS", "scls"),
     ObjQuals(a.x)
       \o PropTrees(a.pr)
       \o (IF Len(a.kb) > 0 THEN <<MethodTree("m1", a.kb)>> ELSE <<>>)
       \o (IF Has(a.x, "m2") THEN <<MethodTree("m2", <<"m">>)>> ELSE <<>>),
     "none")

(* ---- qualifier declarations ---------------------------------------------------- *)
(* x flags: type "t_string"|"t_boolean"|"t_uint32"; "arr"; "size"; value    *)
(* "vs"|"va"; scopes "sc1"|"sc2"|"scany"|"scmof"; flavors "fl_t"|"fl_f"|     *)
(* "fl_ov".  "scmof": the scopes dictionary as the MOF compiler builds it    *)
(* (all seven scopes plus ANY: False); with flag "scope_any" the ANY entry   *)
(* is written as an attribute of SCOPE (pinned tree; repaired since).        *)
QualDeclTree(a, Variant) ==
  LET ty == IF Has(a.x, "t_boolean") THEN "boolean"
            ELSE IF Has(a.x, "t_uint32") THEN "uint32" ELSE "string"
      tf(b) == IF b THEN "true" ELSE "false"
      fl == IF Has(a.x, "fl_t") \/ Has(a.x, "fl_f")
            THEN <<<<"OVERRIDABLE", tf(Has(a.x, "fl_t"))>>,
                   <<"TOSUBCLASS", tf(Has(a.x, "fl_t"))>>,
                   <<"TOINSTANCE", tf(Has(a.x, "fl_t"))>>,
                   <<"TRANSLATABLE", tf(Has(a.x, "fl_t"))>>>>
            ELSE IF Has(a.x, "fl_ov") THEN <<<<"OVERRIDABLE", "true">>>>
            ELSE <<>>
      sc == IF Has(a.x, "sc1")
            THEN <<El("SCOPE", <<<<"CLASS", "true">>>>, <<>>, "none")>>
            ELSE IF Has(a.x, "sc2")
            THEN <<El("SCOPE", <<<<"CLASS", "true">>, <<"PROPERTY", "false">>>>,
                      <<>>, "none")>>
            ELSE IF Has(a.x, "scany")
            THEN <<El("SCOPE", <<<<"ASSOCIATION", "true">>, <<"CLASS", "true">>,
                                 <<"INDICATION", "true">>, <<"METHOD", "true">>,
                                 <<"PARAMETER", "true">>, <<"PROPERTY", "true">>,
                                 <<"REFERENCE", "true">>>>, <<>>, "none")>>
            ELSE IF Has(a.x, "scmof")
            THEN <<El("SCOPE",
                      (IF "scope_any" \in Variant THEN <<<<"ANY", "false">>>> ELSE <<>>)
                        \o <<<<"ASSOCIATION", "false">>, <<"CLASS", "true">>,
                              <<"INDICATION", "false">>, <<"METHOD", "false">>,
                              <<"PARAMETER", "false">>, <<"PROPERTY", "true">>,
                              <<"REFERENCE", "false">>>>, <<>>, "none")>>
            ELSE <<>>
      v == IF Has(a.x, "vs") THEN <<Val>>
           ELSE IF Has(a.x, "va") THEN <<ValArray(<<Val>>)>> ELSE <<>>
  IN
  El("QUALIFIER.DECLARATION",
     <<<<"NAME", "qd1">>, <<"TYPE", ty>>,
       <<"ISARRAY", tf(Has(a.x, "arr") \/ Has(a.x, "va"))>>>>
       \o OptAttr(Has(a.x, "size"), "ARRAYSIZE", "5") \o fl,
     sc \o v, "none")

(* ---- the operation table -------------------------------------------------------- *)
(* n: parameter name as in the method signature; l: its lower-case token;   *)
(* k: kind; r: required; v: vocabulary token of the value (class names)     *)
P(n, l, k, r, v) == [n |-> n, l |-> l, k |-> k, r |-> r, v |-> v]
Bo(n, l) == P(n, l, "bool", FALSE, "")
St(n, l) == P(n, l, "str", FALSE, "")
StR(n, l) == P(n, l, "str", TRUE, "")
Ui(n, l) == P(n, l, "uint", FALSE, "")
PL == P("PropertyList", "propertylist", "plist", FALSE, "")
CnR == P("ClassName", "classname", "cn", TRUE, "tcls")
CnO == P("ClassName", "classname", "cn", FALSE, "tcls")
InR == P("InstanceName", "instancename", "in", TRUE, "tcls")
OnR == P("ObjectName", "objectname", "on", TRUE, "tcls")
AC == P("AssocClass", "assocclass", "cn", FALSE, "acls")
RC == P("ResultClass", "resultclass", "cn", FALSE, "rcls")
Role == St("Role", "role")
RRole == St("ResultRole", "resultrole")
LO == Bo("LocalOnly", "localonly")
DI == Bo("DeepInheritance", "deepinheritance")
IQ == Bo("IncludeQualifiers", "includequalifiers")
ICO == Bo("IncludeClassOrigin", "includeclassorigin")
FQL == St("FilterQueryLanguage", "filterquerylanguage")
FQ == St("FilterQuery", "filterquery")
OT == Ui("OperationTimeout", "operationtimeout")
COE == Bo("ContinueOnError", "continueonerror")
MOC == Ui("MaxObjectCount", "maxobjectcount")
MOCR == P("MaxObjectCount", "maxobjectcount", "uint", TRUE, "")
CTX == P("context", "enumerationcontext", "ctx", TRUE, "")

(* kind "i" intrinsic, "m" extrinsic, "x" export, "iter" delegating;        *)
(* nsrule: how the target namespace is found; has_ns: `namespace` argument  *)
Op(kind, nsrule, hasns, params) ==
  [kind |-> kind, nsrule |-> nsrule, hasns |-> hasns, params |-> params]

OpTable ==
     ("EnumerateInstances" :> Op("i", "arg_cn", TRUE, <<CnR, LO, DI, IQ, ICO, PL>>))
  @@ ("EnumerateInstanceNames" :> Op("i", "arg_cn", TRUE, <<CnR>>))
  @@ ("GetInstance" :> Op("i", "obj", FALSE, <<InR, LO, IQ, ICO, PL>>))
  @@ ("ModifyInstance" :> Op("i", "minst", FALSE,
        <<P("ModifiedInstance", "modifiedinstance", "minst", TRUE, ""), IQ, PL>>))
  @@ ("CreateInstance" :> Op("i", "arg_inst", TRUE,
        <<P("NewInstance", "newinstance", "inst", TRUE, "")>>))
  @@ ("DeleteInstance" :> Op("i", "obj", FALSE, <<InR>>))
  @@ ("Associators" :> Op("i", "obj", FALSE, <<OnR, AC, RC, Role, RRole, IQ, ICO, PL>>))
  @@ ("AssociatorNames" :> Op("i", "obj", FALSE, <<OnR, AC, RC, Role, RRole>>))
  @@ ("References" :> Op("i", "obj", FALSE, <<OnR, RC, Role, IQ, ICO, PL>>))
  @@ ("ReferenceNames" :> Op("i", "obj", FALSE, <<OnR, RC, Role>>))
  @@ ("InvokeMethod" :> Op("m", "meth", FALSE,
        <<P("ObjectName", "objectname", "on", TRUE, "tcls"),
          P("Params", "params", "mparams", FALSE, "")>>))
  @@ ("ExecQuery" :> Op("i", "arg", TRUE,
        <<StR("QueryLanguage", "querylanguage"), StR("Query", "query")>>))
  @@ ("OpenEnumerateInstances" :> Op("i", "arg_cn", TRUE,
        <<CnR, DI, ICO, PL, FQL, FQ, OT, COE, MOC>>))
  @@ ("OpenEnumerateInstancePaths" :> Op("i", "arg_cn", TRUE,
        <<CnR, FQL, FQ, OT, COE, MOC>>))
  @@ ("OpenAssociatorInstances" :> Op("i", "obj", FALSE,
        <<InR, AC, RC, Role, RRole, ICO, PL, FQL, FQ, OT, COE, MOC>>))
  @@ ("OpenAssociatorInstancePaths" :> Op("i", "obj", FALSE,
        <<InR, AC, RC, Role, RRole, FQL, FQ, OT, COE, MOC>>))
  @@ ("OpenReferenceInstances" :> Op("i", "obj", FALSE,
        <<InR, RC, Role, ICO, PL, FQL, FQ, OT, COE, MOC>>))
  @@ ("OpenReferenceInstancePaths" :> Op("i", "obj", FALSE,
        <<InR, RC, Role, FQL, FQ, OT, COE, MOC>>))
  @@ ("OpenQueryInstances" :> Op("i", "arg", TRUE,
        <<StR("FilterQueryLanguage", "filterquerylanguage"),
          StR("FilterQuery", "filterquery"),
          Bo("ReturnQueryResultClass", "returnqueryresultclass"), OT, COE, MOC>>))
  @@ ("PullInstancesWithPath" :> Op("i", "ctx", FALSE, <<CTX, MOC>>))
  @@ ("PullInstancePaths" :> Op("i", "ctx", FALSE, <<CTX, MOC>>))
  @@ ("PullInstances" :> Op("i", "ctx", FALSE, <<CTX, MOC>>))
  @@ ("CloseEnumeration" :> Op("i", "ctx", FALSE, <<CTX>>))
  @@ ("EnumerateClasses" :> Op("i", "arg_cn", TRUE, <<CnO, DI, LO, IQ, ICO>>))
  @@ ("EnumerateClassNames" :> Op("i", "arg_cn", TRUE, <<CnO, DI>>))
  @@ ("GetClass" :> Op("i", "arg_cn", TRUE, <<CnR, LO, IQ, ICO, PL>>))
  @@ ("ModifyClass" :> Op("i", "arg", TRUE,
        <<P("ModifiedClass", "modifiedclass", "cls", TRUE, "")>>))
  @@ ("CreateClass" :> Op("i", "arg", TRUE,
        <<P("NewClass", "newclass", "cls", TRUE, "")>>))
  @@ ("DeleteClass" :> Op("i", "arg_cn", TRUE, <<CnR>>))
  @@ ("EnumerateQualifiers" :> Op("i", "arg", TRUE, <<>>))
  @@ ("GetQualifier" :> Op("i", "arg", TRUE,
        <<StR("QualifierName", "qualifiername")>>))
  @@ ("SetQualifier" :> Op("i", "arg", TRUE,
        <<P("QualifierDeclaration", "qualifierdeclaration", "qd", TRUE, "")>>))
  @@ ("DeleteQualifier" :> Op("i", "arg", TRUE,
        <<StR("QualifierName", "qualifiername")>>))
  @@ ("ExportIndication" :> Op("x", "none", FALSE,
        <<P("NewIndication", "newindication", "xinst", TRUE, "")>>))
  @@ ("IterEnumerateInstances" :> Op("iter", "arg_cn", TRUE,
        <<CnR, LO, DI, IQ, ICO, PL, FQL, FQ, OT, COE, MOCR>>))
  @@ ("IterEnumerateInstancePaths" :> Op("iter", "arg_cn", TRUE,
        <<CnR, FQL, FQ, OT, COE, MOCR>>))
  @@ ("IterAssociatorInstances" :> Op("iter", "obj", FALSE,
        <<InR, AC, RC, Role, RRole, IQ, ICO, PL, FQL, FQ, OT, COE, MOCR>>))
  @@ ("IterAssociatorInstancePaths" :> Op("iter", "obj", FALSE,
        <<InR, AC, RC, Role, RRole, FQL, FQ, OT, COE, MOCR>>))
  @@ ("IterReferenceInstances" :> Op("iter", "obj", FALSE,
        <<InR, RC, Role, IQ, ICO, PL, FQL, FQ, OT, COE, MOCR>>))
  @@ ("IterReferenceInstancePaths" :> Op("iter", "obj", FALSE,
        <<InR, RC, Role, FQL, FQ, OT, COE, MOCR>>))
  @@ ("IterQueryInstances" :> Op("iter", "arg", TRUE,
        <<StR("FilterQueryLanguage", "filterquerylanguage"),
          StR("FilterQuery", "filterquery"),
          Bo("ReturnQueryResultClass", "returnqueryresultclass"), OT, COE, MOCR>>))

Ops == DOMAIN OpTable

(* Iter... -> first operation on the wire: <<pull variant, traditional>> *)
IterTarget ==
     ("IterEnumerateInstances" :> <<"OpenEnumerateInstances", "EnumerateInstances">>)
  @@ ("IterEnumerateInstancePaths" :> <<"OpenEnumerateInstancePaths", "EnumerateInstanceNames">>)
  @@ ("IterAssociatorInstances" :> <<"OpenAssociatorInstances", "Associators">>)
  @@ ("IterAssociatorInstancePaths" :> <<"OpenAssociatorInstancePaths", "AssociatorNames">>)
  @@ ("IterReferenceInstances" :> <<"OpenReferenceInstances", "References">>)
  @@ ("IterReferenceInstancePaths" :> <<"OpenReferenceInstancePaths", "ReferenceNames">>)
  @@ ("IterQueryInstances" :> <<"OpenQueryInstances", "ExecQuery">>)

LowerOp ==
  [o \in Ops |->
     CASE o = "EnumerateInstances" -> "enumerateinstances"
       [] o = "EnumerateInstanceNames" -> "enumerateinstancenames"
       [] o = "GetInstance" -> "getinstance"
       [] o = "ModifyInstance" -> "modifyinstance"
       [] o = "CreateInstance" -> "createinstance"
       [] o = "DeleteInstance" -> "deleteinstance"
       [] o = "Associators" -> "associators"
       [] o = "AssociatorNames" -> "associatornames"
       [] o = "References" -> "references"
       [] o = "ReferenceNames" -> "referencenames"
       [] o = "InvokeMethod" -> "meth1"
       [] o = "ExecQuery" -> "execquery"
       [] o = "OpenEnumerateInstances" -> "openenumerateinstances"
       [] o = "OpenEnumerateInstancePaths" -> "openenumerateinstancepaths"
       [] o = "OpenAssociatorInstances" -> "openassociatorinstances"
       [] o = "OpenAssociatorInstancePaths" -> "openassociatorinstancepaths"
       [] o = "OpenReferenceInstances" -> "openreferenceinstances"
       [] o = "OpenReferenceInstancePaths" -> "openreferenceinstancepaths"
       [] o = "OpenQueryInstances" -> "openqueryinstances"
       [] o = "PullInstancesWithPath" -> "pullinstanceswithpath"
       [] o = "PullInstancePaths" -> "pullinstancepaths"
       [] o = "PullInstances" -> "pullinstances"
       [] o = "CloseEnumeration" -> "closeenumeration"
       [] o = "EnumerateClasses" -> "enumerateclasses"
       [] o = "EnumerateClassNames" -> "enumerateclassnames"
       [] o = "GetClass" -> "getclass"
       [] o = "ModifyClass" -> "modifyclass"
       [] o = "CreateClass" -> "createclass"
       [] o = "DeleteClass" -> "deleteclass"
       [] o = "EnumerateQualifiers" -> "enumeratequalifiers"
       [] o = "GetQualifier" -> "getqualifier"
       [] o = "SetQualifier" -> "setqualifier"
       [] o = "DeleteQualifier" -> "deletequalifier"
       [] o = "ExportIndication" -> "exportindication"
       [] OTHER -> "iter"]

(* ---- argument lookup --------------------------------------------------------------- *)
ParamIndex(op, n) ==
  LET I == {i \in DOMAIN OpTable[op].params : OpTable[op].params[i].n = n} IN
  IF I = {} THEN 0 ELSE CHOOSE i \in I : TRUE

ArgOf(c, n) ==
  LET i == ParamIndex(c.op, n) IN IF i = 0 THEN NoneArg ELSE c.args[i]

(* ---- namespace resolution (the _iparam_namespace_* functions) ------------------------- *)
TargetNs(c) ==
  LET rule == OpTable[c.op].nsrule
      first == IF Len(c.args) > 0 THEN c.args[1] ELSE NoneArg IN
  CASE rule = "arg" ->
         IF c.ns.f \in {"none", "na"} THEN NsTok(c.dflt) ELSE NsTok(c.ns.f)
    [] rule = "arg_cn" ->
         IF c.ns.f \notin {"none", "na"} THEN NsTok(c.ns.f)
         ELSE IF HasNs(first.f) THEN ONs(first) ELSE NsTok(c.dflt)
    [] rule = "arg_inst" ->
         IF c.ns.f \notin {"none", "na"} THEN NsTok(c.ns.f)
         ELSE IF HasNs(first.f) THEN ONs(first) ELSE NsTok(c.dflt)
    [] rule \in {"obj", "minst", "meth"} ->
         IF HasNs(first.f) THEN ONs(first) ELSE NsTok(c.dflt)
    [] rule = "ctx" -> NsTok(IF first.f = "ctxe" THEN "ce"
                             ELSE IF first.f = "ctxg" THEN "cg" ELSE "c")
    [] OTHER -> <<>>

(* ---- one IPARAMVALUE ----------------------------------------------------------------- *)
PlistTree(f) ==
  CASE f = "empty" -> ValArray(<<>>)
    [] f \in {"one", "str"} -> ValArray(<<Val>>)
    [] f = "two" -> ValArray(<<Val, Val>>)
    [] f = "nullelem" -> ValArray(<<Val, ValNull>>)

IParamChild(p, a, Variant) ==
  CASE p.k \in {"bool", "uint", "ctx"} -> Val
    [] p.k = "str" -> IF a.f = "e" THEN ValEmpty ELSE Val
    [] p.k = "plist" -> PlistTree(a.f)
    [] p.k = "cn" -> ClassNameTree(p.v)
    [] p.k = "in" -> InstNameTree(p.v, a.kb)
    [] p.k = "on" -> IF IsInstForm(a.f) THEN InstNameTree(p.v, a.kb)
                     ELSE ClassNameTree(p.v)
    [] p.k = "inst" -> InstanceTree(a)               \* path removed
    [] p.k = "minst" ->
         El("VALUE.NAMEDINSTANCE", <<>>,
            <<InstNameTree("icls", a.kb), InstanceTree(a)>>, "none")
    [] p.k = "cls" -> ClassTree(a)
    [] p.k = "qd" -> QualDeclTree(a, Variant)

IParam(p, a, Variant) ==
  El("IPARAMVALUE", <<<<"NAME", p.l>>>>, <<IParamChild(p, a, Variant)>>, "none")

Envelope(req) ==
  El("CIM", <<<<"CIMVERSION", "2.0">>, <<"DTDVERSION", "2.0">>>>,
     <<El("MESSAGE", <<<<"ID", "1001">>, <<"PROTOCOLVERSION", "1.0">>>>,
          <<req>>, "none")>>, "none")

(* _imethodcall: IPARAMVALUE for every argument that is not None, in the    *)
(* keyword order of the call                                                 *)
IMethodReq(wireop, ns, params, args, Variant) ==
  LET present == SelectSeq([i \in DOMAIN params |-> i],
                           LAMBDA i : args[i].f # "none") IN
  [emit |-> TRUE,
   tree |-> Envelope(El("SIMPLEREQ", <<>>,
     <<El("IMETHODCALL", <<<<"NAME", LowerOp[wireop]>>>>,
          <<NsPath(ns)>> \o
            [j \in DOMAIN present |-> IParam(params[present[j]],
                                            args[present[j]], Variant)],
          "none")>>, "none")),
   hdr |-> [method |-> LowerOp[wireop], form |-> "ns", ns |-> ns,
            cls |-> "", keys |-> <<>>]]

Refused == [emit |-> FALSE, tree |-> El("#none", <<>>, <<>>, "none"),
            hdr |-> [method |-> "", form |-> "none", ns |-> <<>>, cls |-> "",
                     keys |-> <<>>]]

(* ---- InvokeMethod ---------------------------------------------------------------------- *)
(* a.pr = <<via1, shape1, via2, shape2, ...>>; via: "tuple" | "kw" | "cp"   *)
(* (CIMParameter).  PARAMTYPE / EmbeddedObject as infer_type() /            *)
(* infer_embedded_object() find them, or as the CIMParameter says.          *)
MParNames == <<"mp1", "mp2", "mp3">>
(* reference values as method parameters: every reference shape ("refi" =   *)
(* "ref"), and arrays of them (instance and class names may be mixed)       *)
MRefShapes == (RefShapes \ {"ref"}) \cup {"refi"}
MRefArrays == ("aref" :> <<"ref", "ref">>)
           @@ ("arefo" :> <<"refo", "refco">>)
           @@ ("arefh" :> <<"refh", "refcl", "refdo">>)
           @@ ("arefc" :> <<"refc", "refc">>)
           @@ ("arefco" :> <<"refcl", "refo">>)
           @@ ("arefch" :> <<"refch", "refl", "refcld">>)
(* Case distinction on the items of an array of references: a CIM reference *)
(* is an instance name or a class name; an array holds names of one kind or *)
(* of both, and _methodcall's paramvalue() looks at the FIRST item to pick   *)
(* the array element (VALUE.REFARRAY for names, VALUE.ARRAY otherwise).     *)
(* Every kind has to occur (WireOpsImpl ASSUMEs it).                         *)
RefArrayKinds == {"inst", "class", "inst-first", "class-first"}
RefArrayKind(sh) ==
  LET items == MRefArrays[sh]
      k(i) == RefSpec(items[i]).k
      homo == \A i \in DOMAIN items : k(i) = k(1) IN
  IF homo THEN (IF k(1) = "i" THEN "inst" ELSE "class")
  ELSE (IF k(1) = "i" THEN "inst-first" ELSE "class-first")
(* regression flag "refarray_inst_first": paramvalue() recognises an array  *)
(* of references by an INSTANCE name as first item only; every other list   *)
(* becomes a VALUE.ARRAY (DTD: only VALUE and VALUE.NULL children)          *)
MRefArrayTag(sh, via, V) ==
  IF "refarray_inst_first" \in V /\ RefSpec(MRefArrays[sh][1]).k # "i"
  THEN "VALUE.ARRAY" ELSE "VALUE.REFARRAY"
MParamTree(name, via, sh, V) ==
  LET PV(ty, eo, kids) ==
        El("PARAMVALUE",
           <<<<"NAME", name>>>> \o OptAttr(ty # "", "PARAMTYPE", ty)
             \o OptAttr(eo # "", "EmbeddedObject", eo), kids, "none") IN
  CASE sh = "s"    -> PV("string", "", <<Val>>)
    [] sh = "sempty" -> PV("string", "", <<ValEmpty>>)
    [] sh = "u8"   -> PV("uint8", "", <<Val>>)
    [] sh = "s64"  -> PV("sint64", "", <<Val>>)
    [] sh = "b"    -> PV("boolean", "", <<Val>>)
    [] sh = "dt"   -> PV("datetime", "", <<Val>>)
    [] sh = "r64"  -> PV("real64", "", <<Val>>)
    [] sh = "c16"  -> PV("char16", "", <<Val>>)
    [] sh \in MRefShapes -> PV("reference", "", <<RefVal(sh)>>)
    [] sh = "ei"   -> PV("string", "instance", <<Val>>)
    [] sh = "eo"   -> PV("string", "object", <<Val>>)
    [] sh = "null" -> IF via = "cp" THEN PV("string", "", <<>>)
                      ELSE PV("", "", <<>>)
    [] sh = "as"   -> PV("string", "", <<ValArray(<<Val, Val>>)>>)
    [] sh = "au8"  -> PV("uint8", "", <<ValArray(<<Val>>)>>)
    [] sh = "aempty" -> IF via = "cp" THEN PV("string", "", <<ValArray(<<>>)>>)
                        ELSE PV("", "", <<ValArray(<<>>)>>)
    [] sh \in DOMAIN MRefArrays ->
         PV("reference", "",
            <<El(MRefArrayTag(sh, via, V), <<>>,
                 [i \in DOMAIN MRefArrays[sh] |-> RefVal(MRefArrays[sh][i])],
                 "none")>>)
    [] sh = "aei"  -> PV("string", "instance", <<ValArray(<<Val>>)>>)

MParamShapes == {"s", "sempty", "u8", "s64", "b", "dt", "r64", "c16",
                 "ei", "eo", "null", "as", "au8", "aempty", "aei"}
                  \cup MRefShapes \cup DOMAIN MRefArrays

MethodReq(c, Variant) ==
  LET tgt == c.args[1]
      pa == c.args[2]
      ns == TargetNs(c)
      n == Len(pa.pr) \div 2
      (* _methodcall: copy, default namespace filled in, host removed *)
      leaf == IF IsInstForm(tgt.f) THEN InstNameTree("tcls", tgt.kb)
              ELSE ClassNameTree("tcls")
      lform == IF "keephost" \in Variant /\ tgt.f \in {"cn_ns_h", "in_ns_h"}
               THEN (IF IsInstForm(tgt.f) THEN "INSTANCEPATH" ELSE "CLASSPATH")
               ELSE (IF IsInstForm(tgt.f) THEN "LOCALINSTANCEPATH"
                     ELSE "LOCALCLASSPATH")
      nsel == IF lform \in {"INSTANCEPATH", "CLASSPATH"} THEN NsPathH(ns)
              ELSE NsPath(ns)
      hdrns == IF "hdr_before_default" \in Variant /\ ~HasNs(tgt.f)
               THEN <<>> ELSE ns
      (* pinned tree: to_wbem_uri() renders a Real32/Real64 key with repr(), *)
      (* i.e. "Real32(cimtype='real32', 1.5)": not a key value any more      *)
      badreal == /\ "real_repr" \in Variant /\ IsInstForm(tgt.f)
                 /\ \E i \in DOMAIN tgt.kb : tgt.kb[i] = "r32"
  IN
  [emit |-> TRUE,
   tree |-> Envelope(El("SIMPLEREQ", <<>>,
     <<El("METHODCALL", <<<<"NAME", "meth1">>>>,
          <<El(lform, <<>>, <<nsel, leaf>>, "none")>> \o
            [j \in 1..n |-> MParamTree(MParNames[j], pa.pr[2 * j - 1],
                                       pa.pr[2 * j], Variant)],
          "none")>>, "none")),
   hdr |-> [method |-> "meth1",
            form |-> IF badreal THEN "unparsable" ELSE "path",
            ns |-> hdrns, cls |-> "tcls",
            keys |-> IF IsInstForm(tgt.f)
                     THEN [i \in DOMAIN tgt.kb |-> KeyNames[i]] ELSE <<>>]]

(* ---- ExportIndication ------------------------------------------------------------------- *)
(* flag "export_path": tocimxml(NewIndication) honours the instance's path  *)
(* (what the pinned tree does); otherwise the path is dropped as in         *)
(* CreateInstance.                                                           *)
ExportReq(c, Variant) ==
  LET a == c.args[1]
      child == IF "export_path" \in Variant THEN InstanceXml(a, <<>>, Variant)
               ELSE InstanceTree(a) IN
  [emit |-> TRUE,
   tree |-> Envelope(El("SIMPLEEXPREQ", <<>>,
     <<El("EXPMETHODCALL", <<<<"NAME", "exportindication">>>>,
          <<El("EXPPARAMVALUE", <<<<"NAME", "newindication">>>>, <<child>>,
               "none")>>, "none")>>, "none")),
   hdr |-> [method |-> "exportindication", form |-> "none", ns |-> <<>>,
            cls |-> "", keys |-> <<>>]]

(* ---- coincidence of namespaces ---------------------------------------------------------- *)
(* One document may hold several paths, and two of them may lie in the SAME  *)
(* namespace: the path of an association instance and its reference keys /   *)
(* reference properties (what a server returns for ReferenceNames, and what  *)
(* goes back to it in GetInstance / ModifyInstance / DeleteInstance), the    *)
(* target namespace of a request and a reference key / property / method     *)
(* parameter pointing into it, two references side by side, a reference and  *)
(* the reference nested in its key.  A namespace id (NsTok) denotes a VALUE:  *)
(* the same id at two places of a case is the same namespace (the harness    *)
(* spells it identically; in the thorough tier also differing in lexical     *)
(* case only, the projection case-folds).  Every LOCALNAMESPACEPATH of a     *)
(* document has a role (where its path stands):                              *)
(*   target  the namespace the request is directed to (IMETHODCALL's own,    *)
(*           the local path of METHODCALL)                                   *)
(*   path    the path of the object itself (a name that is written, the      *)
(*           path of an instance with its wrapper)                           *)
(*   key / prop / param   a reference value in a keybinding / reference      *)
(*           property / method parameter (the innermost such place)          *)
(* CoinPairs(t) = the sets of roles {r1, r2} of two LOCALNAMESPACEPATH        *)
(* elements of t that carry the same namespace ({r}: both in role r).        *)
NsRoles == {"target", "path", "key", "prop", "param"}
RECURSIVE NsOccs(_, _)
NsOccs(t, role) ==
  IF t.t = "LOCALNAMESPACEPATH"
  THEN <<[role |-> role, ns |-> [i \in DOMAIN t.c |-> AttrVal(t.c[i], "NAME")]]>>
  ELSE LET r == CASE t.t \in {"IMETHODCALL", "METHODCALL"} -> "target"
                  [] t.t \in {"IPARAMVALUE", "EXPPARAMVALUE"} -> "path"
                  [] t.t = "KEYBINDING" -> "key"
                  [] t.t = "PROPERTY.REFERENCE" -> "prop"
                  [] t.t = "PARAMVALUE" -> "param"
                  [] OTHER -> role
       IN Cat([i \in DOMAIN t.c |-> NsOccs(t.c[i], r)])
CoinPairs(t) ==
  LET o == NsOccs(t, "path") IN
  {{o[p[1]].role, o[p[2]].role} :
     p \in {q \in (DOMAIN o) \X (DOMAIN o) :
              q[1] < q[2] /\ o[q[1]].ns = o[q[2]].ns}}
CoinClasses == {"single", "distinct", "same"}
Coincidence(t) ==
  IF Len(NsOccs(t, "path")) <= 1 THEN "single"
  ELSE IF CoinPairs(t) = {} THEN "distinct" ELSE "same"
(* the role pairs the case space has to reach *)
CoinRolePairs == {{"target", "key"}, {"target", "prop"}, {"target", "param"},
                  {"path", "key"}, {"path", "prop"},
                  {"key"}, {"prop"}, {"param"}, {"key", "prop"}}

(* regression "ns_shared": one LOCALNAMESPACEPATH element per namespace,    *)
(* shared by everything that is built (a cache in front of the three places  *)
(* that build it).  Appending a DOM node that already has a parent MOVES it:  *)
(* of the elements that should carry the same namespace only the one whose   *)
(* owner (the ...PATH / IMETHODCALL element it is built for; NAMESPACEPATH   *)
(* is built together with its owner) is built LAST keeps it.  Builders work  *)
(* bottom-up and left to right: owner b is built after owner a iff b is an   *)
(* ancestor of a, or b follows a in document order.                          *)
RECURSIVE NsAt(_, _, _)
NsAt(t, p, own) ==
  IF t.t = "LOCALNAMESPACEPATH"
  THEN {[p |-> p, own |-> own,
         ns |-> [i \in DOMAIN t.c |-> AttrVal(t.c[i], "NAME")]]}
  ELSE UNION {NsAt(t.c[i], Append(p, i),
                   IF t.t = "NAMESPACEPATH" THEN own ELSE p) : i \in DOMAIN t.c}
BuiltAfter(b, a) ==      \* owner paths (sequences of child indices)
  LET n == IF Len(a) < Len(b) THEN Len(a) ELSE Len(b)
      D == {i \in 1..n : a[i] # b[i]} IN
  IF D = {} THEN Len(b) < Len(a)
  ELSE b[CHOOSE i \in D : \A j \in D : i <= j] > a[CHOOSE i \in D : \A j \in D : i <= j]
RECURSIVE DropAt(_, _, _)
DropAt(t, p, D) ==
  LET keep == SelectSeq([i \in DOMAIN t.c |-> i],
                        LAMBDA i : Append(p, i) \notin D) IN
  El(t.t, t.a,
     [j \in DOMAIN keep |-> DropAt(t.c[keep[j]], Append(p, keep[j]), D)], t.x)
SharedNs(t) ==
  LET occ == NsAt(t, <<>>, <<>>)
      D == {a.p : a \in {a \in occ : \E b \in occ :
                           b.p # a.p /\ b.ns = a.ns /\ BuiltAfter(b.own, a.own)}}
  IN DropAt(t, <<>>, D)

(* ---- all operations ---------------------------------------------------------------------- *)
(* regression "ns_drop_empty": every LOCALNAMESPACEPATH written by          *)
(* tocimxml() of a name loses its empty components; the one _imethodcall    *)
(* builds itself (first child of IMETHODCALL) and the header do not         *)
RECURSIVE DropEmptyNs(_, _)
DropEmptyNs(t, own) ==
  IF t.t = "LOCALNAMESPACEPATH" /\ ~own
  THEN El(t.t, t.a,
          SelectSeq(t.c, LAMBDA k : AttrVal(k, "NAME") # EmptyTok), t.x)
  ELSE El(t.t, t.a,
          [i \in DOMAIN t.c |-> DropEmptyNs(t.c[i], t.t = "IMETHODCALL")], t.x)

ImplReq0(c, Variant) ==
  LET o == OpTable[c.op] IN
  CASE o.kind = "i" ->
         IF "minst_order" \in Variant /\ c.op = "ModifyInstance"
         THEN \* regression: INSTANCE before INSTANCENAME
              LET r == IMethodReq(c.op, TargetNs(c), o.params, c.args, Variant)
                  call == r.tree.c[1].c[1].c[1]
                  swap(k) == IF AttrVal(k, "NAME") = "modifiedinstance"
                             THEN El("IPARAMVALUE", k.a,
                                     <<El("VALUE.NAMEDINSTANCE", <<>>,
                                          <<k.c[1].c[2], k.c[1].c[1]>>,
                                          "none")>>, "none")
                             ELSE k
              IN [r EXCEPT !.tree = Envelope(El("SIMPLEREQ", <<>>,
                    <<El("IMETHODCALL", call.a,
                         [i \in DOMAIN call.c |-> swap(call.c[i])], "none")>>,
                    "none"))]
         ELSE IMethodReq(c.op, TargetNs(c), o.params, c.args, Variant)
    [] o.kind = "m" -> MethodReq(c, Variant)
    [] o.kind = "x" -> ExportReq(c, Variant)
    [] o.kind = "iter" ->
         LET pull == c.pull \in {"t", "n"}
             tgt == IterTarget[c.op][IF pull THEN 1 ELSE 2]
             tp == OpTable[tgt].params
             (* same-named parameter; ObjectName <- InstanceName; the        *)
             (* traditional query operation renames its two strings          *)
             src(n) == IF n = "ObjectName" THEN "InstanceName"
                       ELSE IF n = "QueryLanguage" THEN "FilterQueryLanguage"
                       ELSE IF n = "Query" THEN "FilterQuery" ELSE n
             targs == [i \in DOMAIN tp |-> ArgOf(c, src(tp[i].n))]
             refused ==
               /\ ~pull
               /\ \/ ArgOf(c, "ContinueOnError").f # "none"
                  \/ /\ c.op # "IterQueryInstances"
                     /\ \/ ArgOf(c, "FilterQuery").f # "none"
                        \/ ArgOf(c, "FilterQueryLanguage").f # "none"
                  \/ /\ c.op = "IterQueryInstances"
                     /\ ArgOf(c, "ReturnQueryResultClass").f # "none"
         IN IF refused THEN Refused
            ELSE IMethodReq(tgt, TargetNs(c), tp, targs, Variant)

ImplReq(c, Variant) ==
  LET r == ImplReq0(c, Variant) IN
  IF "ns_drop_empty" \in Variant /\ r.emit
  THEN [r EXCEPT !.tree = DropEmptyNs(r.tree, FALSE)]
  ELSE IF "ns_shared" \in Variant /\ r.emit
  THEN [r EXCEPT !.tree = SharedNs(r.tree)] ELSE r

(* ---- the case space (WireOps_Gen) --------------------------------------------------------- *)
(* Every dimension (parameter, `namespace`, default namespace, pull mode)    *)
(* has a base value and a set of alternatives; Cases(K) = all cases in which *)
(* at most K dimensions leave their base value (K = 2: every pair of         *)
(* parameter values meets in some request).                                  *)
KbShapes == {<<>>, <<"s">>, <<"c16">>, <<"dt">>, <<"b">>, <<"u8">>, <<"s64">>,
             <<"r32">>, <<"n">>, <<"s", "u8">>, <<"n", "ref", "b">>,
             <<"refl", "refh">>}       \* two reference keys in one namespace
              \cup {<<sh>> : sh \in InstRefShapes}
BaseKb == <<"s">>

InstContents ==
  {<<sh>> : sh \in PropShapes} \cup {<<>>, <<"s", "as", "ref">>, <<"ei", "anull">>,
                                     <<"refl", "refcl", "s">>}  \* one namespace

ClassMethods ==
  {<<"m">>, <<"m+">>, <<"mq">>, <<"m", "p", "pr", "pa", "pra">>}
    \cup {<<"m", ps>> : ps \in ParamShapes}

QdFlagSets ==
  {<<"t_boolean">>, <<"t_uint32">>, <<"t_string", "arr">>,
   <<"t_string", "arr", "size">>, <<"t_string", "vs">>, <<"t_string", "va">>,
   <<"t_boolean", "vs", "sc1">>, <<"t_string", "sc2">>, <<"t_string", "scany">>,
   <<"t_string", "scmof">>,
   <<"t_string", "fl_t">>, <<"t_string", "fl_f">>, <<"t_string", "fl_ov">>,
   <<"t_uint32", "va", "size", "scany", "fl_t">>}

BaseOf(p) ==
  CASE p.k \in {"bool", "plist"} -> NoneArg
    [] p.k \in {"str", "uint"} -> IF p.r THEN A0("v") ELSE NoneArg
    [] p.k = "cn" -> IF p.r THEN A0("str") ELSE NoneArg
    [] p.k = "in" -> Arg("in", BaseKb, <<>>, <<>>)
    [] p.k = "on" -> A0("str")
    [] p.k \in {"inst", "xinst"} -> Arg("nopath", <<>>, <<"s">>, <<>>)
    [] p.k = "minst" -> Arg("in", BaseKb, <<"s">>, <<>>)
    [] p.k = "cls" -> Arg("cls", <<>>, <<>>, <<>>)
    [] p.k = "qd" -> Arg("qd", <<>>, <<>>, <<"t_string">>)
    [] p.k = "ctx" -> A0("ctx")
    [] p.k = "mparams" -> Arg("mp", <<>>, <<>>, <<>>)

(* boundary namespaces of an object name / instance path (see NsClasses) *)
NsFlags == {"nse", "nsg"}

InstNameOpts ==
  {Arg(f, BaseKb, <<>>, <<>>) : f \in InstForms \ {"in"}}
    \cup {Arg("in", kb, <<>>, <<>>) : kb \in KbShapes \ {BaseKb}}
    \cup {Arg("in_ns", <<"n", "ref", "b">>, <<>>, <<>>)}
    \cup {Arg("in_ns", BaseKb, <<>>, <<x>>) : x \in NsFlags}
    \cup {Arg("in_ns_h", BaseKb, <<>>, <<"nse">>)}
    (* the path of an association instance as a server returns it: the     *)
    (* path and its reference keys lie in one namespace                     *)
    \cup {Arg("in_ns", <<"reflo">>, <<>>, <<>>),
          Arg("in_ns_h", <<"refho", "reflo">>, <<>>, <<>>)}

OptsOf(p) ==
  CASE p.k = "bool" -> {A0("t"), A0("f")}
    [] p.k = "str" -> IF p.r THEN {A0("e")} ELSE {A0("v"), A0("e")}
    [] p.k = "uint" -> IF p.r THEN {} ELSE {A0("v")}
    [] p.k = "plist" -> {A0("empty"), A0("one"), A0("two"), A0("str"),
                         A0("nullelem")}
    [] p.k = "cn" -> ({A0(f) : f \in {"str"} \cup ClassForms}
                       \ {BaseOf(p)})
                       \cup (IF p.v = "tcls"    \* may carry the target namespace
                             THEN {Arg("cn_ns", <<>>, <<>>, <<x>>) : x \in NsFlags}
                             ELSE {})
    [] p.k = "in" -> InstNameOpts
    [] p.k = "on" -> {A0(f) : f \in ClassForms}
                       \cup InstNameOpts \cup {Arg("in", BaseKb, <<>>, <<>>)}
                       \cup {Arg("cn_ns", <<>>, <<>>, <<x>>) : x \in NsFlags}
                       \cup {Arg("cn_ns_h", <<>>, <<>>, <<"nse">>)}
    [] p.k \in {"inst", "xinst"} ->
         ({Arg("nopath", <<>>, pr, <<>>) : pr \in InstContents}
            \cup {Arg("nopath", <<>>, <<"s">>, <<q>>) : q \in {"q", "qfl"}}
            \cup {Arg(f, BaseKb, <<"s">>, <<>>) : f \in InstForms}
            \cup {Arg("in_ns", BaseKb, <<"s">>, <<x>>) : x \in NsFlags}
            \cup {Arg("in_ns", <<"n", "ref", "b">>, <<"s", "as", "ref">>, <<"q">>)}
            (* an association instance within one namespace *)
            \cup {Arg("in_ns", <<"reflo">>, <<"reflo", "refho">>, <<>>)})
           \ {BaseOf(p)}
    [] p.k = "minst" ->
         ({Arg("in", BaseKb, pr, <<>>) : pr \in InstContents}
            \cup {Arg(f, BaseKb, <<"s">>, <<>>) : f \in InstForms \ {"in"}}
            \cup {Arg("in_ns", BaseKb, <<"s">>, <<x>>) : x \in NsFlags}
            \cup {Arg("in", kb, <<"s">>, <<>>) : kb \in KbShapes}
            \cup {Arg("in_ns_h", <<"n", "ref", "b">>, <<"s", "as", "ref">>, <<"q">>)}
            \cup {Arg("in_ns", <<"reflo">>, <<"reflo", "s">>, <<>>)})
           \ {BaseOf(p)}
    [] p.k = "cls" ->
         {Arg("cls", <<>>, pr, <<>>) : pr \in InstContents \ {<<>>}}
           \cup {Arg("cls", m, <<>>, <<>>) : m \in ClassMethods}
           \cup {Arg("cls", <<>>, <<>>, <<"super">>)}
           \cup {Arg("cls", <<>>, <<>>, <<q>>) : q \in QualShapes}
           \cup {Arg("cls", <<"m", "p">>, <<"snull", "anone", "refnull">>,
                     <<"super", "qb", "qa", "m2">>)}
    [] p.k = "qd" -> {Arg("qd", <<>>, <<>>, x) : x \in QdFlagSets}
    [] p.k = "ctx" -> {A0("ctxe"), A0("ctxg")}
    [] p.k = "mparams" ->
         {Arg("mp", <<>>, <<via, sh>>, <<>>) :
            via \in {"tuple", "kw", "cp"}, sh \in MParamShapes}
           \cup {Arg("mp", <<>>, <<"tuple", "s", "kw", "u8">>, <<>>),
                 Arg("mp", <<>>, <<"cp", "refi", "tuple", "aref", "kw", "ei">>,
                     <<>>),
                 Arg("mp", <<>>, <<"cp", "refch", "tuple", "arefo", "kw", "refo">>,
                     <<>>)}

(* dimensions of an operation: 1..np parameters, np+1 namespace argument,   *)
(* np+2 default namespace, np+3 pull mode                                    *)
NP(op) == Len(OpTable[op].params)
DimOpts(op, d) ==
  LET np == NP(op) IN
  IF d <= np THEN OptsOf(OpTable[op].params[d])
  ELSE IF d = np + 1
  THEN (IF OpTable[op].hasns
        THEN {A0("a1"), A0("a2"), A0("a2s"), A0("ae"), A0("ag")} ELSE {})
  ELSE IF d = np + 2
  THEN (IF OpTable[op].nsrule \in {"ctx", "none"} THEN {}
        ELSE {A0("d1"), A0("de"), A0("dg")})
  ELSE (IF OpTable[op].kind = "iter" THEN {A0("f"), A0("n")} ELSE {})

BaseCase(op) ==
  [op |-> op,
   pull |-> IF OpTable[op].kind = "iter" THEN "t" ELSE "na",
   dflt |-> "d2",
   ns |-> IF OpTable[op].hasns THEN NoneArg ELSE A0("na"),
   args |-> [i \in 1..NP(op) |-> BaseOf(OpTable[op].params[i])]]

WithDim(c, d, o) ==
  LET np == NP(c.op) IN
  IF d <= np THEN [c EXCEPT !.args[d] = o]
  ELSE IF d = np + 1 THEN [c EXCEPT !.ns = o]
  ELSE IF d = np + 2 THEN [c EXCEPT !.dflt = o.f]
  ELSE [c EXCEPT !.pull = o.f]

CasesOfOp(op, K) ==
  LET dims == 1..(NP(op) + 3)
      b == BaseCase(op)
      one == UNION {{WithDim(b, d, o) : o \in DimOpts(op, d)} : d \in dims}
      two == UNION {UNION {{WithDim(WithDim(b, d1, o1), d2, o2) :
                              o1 \in DimOpts(op, d1), o2 \in DimOpts(op, d2)} :
                             d2 \in {x \in dims : x > d1}} : d1 \in dims}
  IN {b} \cup (IF K >= 1 THEN one ELSE {}) \cup (IF K >= 2 THEN two ELSE {})

Cases(K) == UNION {CasesOfOp(op, K) : op \in Ops}

(* ---- the object case space: tocimxml() / tocimxmlstr() of CIM objects ----------------------- *)
(* An object case is [op |-> "#obj", kind, f, kb, pr, x, ign]:                *)
(*   kind  "iname"  CIMInstanceName(icls, keys kb) of path form f             *)
(*         "cname"  CIMClassName(tcls) of path form f                          *)
(*         "inst"   CIMInstance(icls, properties pr, qualifiers x) whose path  *)
(*                  has form f ("nopath": none) and keys kb                    *)
(*         "class"  CIMClass(ccls, properties pr, flags x) whose path          *)
(*                  (a CIMClassName) has form f; tocimxml() ignores it         *)
(*         "prop"   CIMProperty p1 of shape pr[1]                              *)
(*         "param"  CIMParameter mp1 with a value of shape pr[1], written      *)
(*                  as_value (PARAMVALUE)                                      *)
(*   x     namespace flags "nse" / "nsg" (see ONs), qualifier shapes, "fn":    *)
(*         written through the module function pywbem.tocimxmlstr(obj)         *)
(*   ign   the ignore_... arguments that are True, in the order of IgnSeqs     *)
(* ObjCases = for every kind that has or is a path: all path shapes x all      *)
(* combinations of its ignore arguments x reference values of every shape in  *)
(* the keybindings / properties; for every kind that contains reference       *)
(* values: all reference shapes.                                              *)
ObjCase(kind, f, kb, pr, x, ign) ==
  [op |-> "#obj", kind |-> kind, f |-> f, kb |-> kb, pr |-> pr, x |-> x,
   ign |-> ign]

NameIgnSeqs == {<<>>, <<"ignore_host">>, <<"ignore_namespace">>,
                <<"ignore_host", "ignore_namespace">>}
InstIgnSeqs == {<<>>, <<"ignore_path">>}
ObjKinds == {"iname", "cname", "inst", "class", "prop", "param"}

(* the namespace flags make sense on forms with a namespace only *)
NsFlagSeqs(f) == IF HasNs(f) THEN {<<>>, <<"nse">>, <<"nsg">>} ELSE {<<>>}
ObjRefKbs == {BaseKb} \cup {<<sh>> : sh \in InstRefShapes}
ObjRefProps == {<<"s">>} \cup {<<sh>> : sh \in RefShapes}

ObjCases0 ==
  (* names: form x ignore arguments x (namespace class | reference keys) *)
     {ObjCase("iname", f, BaseKb, <<>>, x, ign) :
        f \in InstForms, x \in {<<>>, <<"nse">>, <<"nsg">>, <<"fn">>},
        ign \in NameIgnSeqs}
  \cup {ObjCase("iname", f, kb, <<>>, <<>>, ign) :
        f \in InstForms,
        kb \in ObjRefKbs \cup {<<>>, <<"n", "ref", "b">>, <<"refl", "refh">>},
        ign \in NameIgnSeqs}
  \cup {ObjCase("cname", f, <<>>, <<>>, x, ign) :
        f \in ClassForms, x \in {<<>>, <<"nse">>, <<"nsg">>, <<"fn">>},
        ign \in NameIgnSeqs}
  (* instances: path form x ignore_path x (reference property | reference   *)
  (* key | namespace class | qualifiers | through the module function)       *)
  \cup {ObjCase("inst", f, BaseKb, pr, <<>>, ign) :
        f \in InstForms \cup {"nopath"}, pr \in ObjRefProps, ign \in InstIgnSeqs}
  \cup {ObjCase("inst", f, kb, <<"s">>, <<>>, ign) :
        f \in InstForms, kb \in ObjRefKbs, ign \in InstIgnSeqs}
  \cup {ObjCase("inst", f, BaseKb, <<"s">>, x, ign) :
        f \in InstForms \cup {"nopath"},
        x \in {<<"nse">>, <<"nsg">>, <<"fn">>, <<"q">>, <<"fn", "qfl">>},
        ign \in InstIgnSeqs}
  \cup {ObjCase("inst", f, <<"n", "refhdo", "b">>, <<"s", "as", "refco">>,
                <<"q">>, ign) : f \in InstForms, ign \in InstIgnSeqs}
  (* an association instance within one namespace: path, reference key and  *)
  (* reference properties coincide                                          *)
  \cup {ObjCase("inst", f, <<"reflo">>, <<"refho", "reflo", "s">>, <<>>, ign) :
        f \in InstForms, ign \in InstIgnSeqs}
  (* classes: the path is never written, whatever its form *)
  \cup {ObjCase("class", f, <<>>, pr, x, <<>>) :
        f \in ClassForms \cup {"nopath"},
        pr \in {<<>>, <<"refo">>, <<"refch">>, <<"refco">>, <<"refdo">>},
        x \in {<<>>, <<"nse">>, <<"fn">>}}
  \cup {ObjCase("class", "cn_ns_h", <<"m", "pr", "pra">>, <<sh>>,
                <<"super", "q">>, <<>>) : sh \in RefShapes}
  (* single properties / parameter values: every shape *)
  \cup {ObjCase("prop", "nopath", <<>>, <<sh>>, x, <<>>) :
        sh \in PropShapes, x \in {<<>>, <<"fn">>}}
  \cup {ObjCase("param", "nopath", <<>>, <<sh>>, <<>>, <<>>) :
        sh \in MParamShapes}

(* the module function has no ignore arguments *)
ObjCases == {c \in ObjCases0 : Has(c.x, "fn") => c.ign = <<>>}

(* the document tocimxmlstr() returns for an object case *)
ObjTree(c, V) ==
  LET a == Arg(c.f, c.kb, c.pr, c.x) IN
  CASE c.kind = "iname" -> NameXml(c.f, "icls", c.kb, ONs(a), c.ign, V)
    [] c.kind = "cname" -> NameXml(c.f, "tcls", <<>>, ONs(a), c.ign, V)
    [] c.kind = "inst"  -> InstanceXml(a, c.ign, V)
    [] c.kind = "class" -> ClassTree(a)
    [] c.kind = "prop"  -> PropTree("p1", c.pr[1])
    [] c.kind = "param" -> MParamTree("mp1", "cp", c.pr[1], {})

ObjDoc(c, V) ==
  [emit |-> TRUE,
   tree |-> IF "ns_shared" \in V THEN SharedNs(ObjTree(c, V)) ELSE ObjTree(c, V),
   hdr |-> [method |-> "", form |-> "none", ns |-> <<>>, cls |-> "",
            keys |-> <<>>]]

IsObjCase(c) == c.op = "#obj"
DocOf(c, V) == IF IsObjCase(c) THEN ObjDoc(c, V) ELSE ImplReq(c, V)

(* ---- _cim_http._quote_edge_blanks() -------------------------------------------------------- *)
(* the extension header values (CIMMethod, CIMObject, CIMExportMethod) as   *)
(* wbem_request() hands them to the transport: blanks at the edges of the   *)
(* value are %-escaped, everything else is left as it is (values over       *)
(* WireOps!HdrValues; "e" = %20).  lead = len(value) - len(value.lstrip()), *)
(* trail = len(value) - lead - len(stripped).  Regression flag             *)
(* "edge_rstrip": trail = len(value) - len(value.rstrip()).                 *)
QuoteEdgeBlanks(v, V) ==
  LET stripped == RStripB(LStripB(v))
      lead == Len(v) - Len(LStripB(v))
      trail == IF "edge_rstrip" \in V THEN Len(v) - Len(RStripB(v))
               ELSE Len(v) - lead - Len(stripped) IN
  IF stripped = v THEN v
  ELSE [i \in 1..lead |-> "e"] \o stripped \o [i \in 1..trail |-> "e"]

(* ---- comparison of a tree from the real code with the transcription ------------------------ *)
(* (white space in element content = pretty-printed output is not a          *)
(* difference)                                                                *)
SameText(x, y) == x.x = y.x \/ (x.x = "ws" /\ y.x = "none" /\ Len(x.c) > 0)
RECURSIVE SameTree(_, _)
SameTree(x, y) ==
  /\ x.t = y.t
  /\ SameText(x, y)
  /\ SeqToSet(x.a) = SeqToSet(y.a)
  /\ Len(x.a) = Len(y.a)
  /\ Len(x.c) = Len(y.c)
  /\ \A i \in DOMAIN x.c : SameTree(x.c[i], y.c[i])

(* first path (tags) at which two trees differ, for the drift report *)
RECURSIVE DiffPath(_, _)
DiffPath(x, y) ==
  IF x.t # y.t THEN <<x.t, "#tag", y.t>>
  ELSE IF SeqToSet(x.a) # SeqToSet(y.a) \/ Len(x.a) # Len(y.a)
  THEN <<x.t, "#attrs">>
  ELSE IF ~SameText(x, y) THEN <<x.t, "#text">>
  ELSE IF Len(x.c) # Len(y.c) THEN <<x.t, "#children">>
  ELSE LET D == {i \in DOMAIN x.c : ~SameTree(x.c[i], y.c[i])} IN
       IF D = {} THEN <<>>
       ELSE <<x.t>> \o DiffPath(x.c[CHOOSE i \in D : \A j \in D : i <= j],
                                y.c[CHOOSE i \in D : \A j \in D : i <= j])
=============================================================================
