SPECIFICATION Spec
CONSTANTS
  SearchStopsAtFirstRecorder = FALSE
  ReprNeedsKeyFile = FALSE
  MaxPlan = 3
INVARIANT SwitchOnTotal
INVARIANT OneLogRecorder
INVARIANT LoggingOnWhenAsked
CHECK_DEADLOCK FALSE
