SPECIFICATION Spec
CONSTANTS
  PartialUsecAsterisks = TRUE
  NegOffsetFix = TRUE
  CopyKeepsPrecision = TRUE
  ForeignTzNorm = "seconds"
  Years <- YearsS
  Months <- MonthsS
  DaysOfMonth <- DomS
  Hours <- HoursS
  Minutes <- SixtyS
  Seconds <- SixtyS
  Usecs <- UsecsS
  IvDays <- IvDaysS
  IvHours <- HoursS
  Offsets <- OffsetsAll
INVARIANT RoundTrip
INVARIANT CopySame
INVARIANT CtorHolds
INVARIANT ParseClosed
CHECK_DEADLOCK FALSE
