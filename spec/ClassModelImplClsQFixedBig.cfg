SPECIFICATION Spec
CONSTANTS
  ClassLevelPropagate = TRUE
  ParamResolve = TRUE
  InitRestated = TRUE
  OriginFromSuper = FALSE
  AllowModifyBusy = FALSE
  SigCheck = TRUE
  Parent <- Chain4
  Mode = "clsq"
  QSels = {{1, 3}, {2, 3}, {1, 2}}
  Vias = {"api", "mof"}
  InstKeys = {}
  WithModify = FALSE
  AllFlags = FALSE
  GenDepth = 0
INVARIANT ImplRefinesReq
INVARIANT MappingHolds
INVARIANT GetFullOk
INVARIANT EnumOk
CHECK_DEADLOCK FALSE
