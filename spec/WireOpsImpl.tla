------------------------------ MODULE WireOpsImpl ------------------------------
(***************************************************************************)
(* C03 - TLC checks the code-shaped request assembly (WireOpsImplOps)      *)
(* against the requirement (WireOps / CimXmlDtd) for EVERY case of the     *)
(* case space: 41 operation methods x argument shapes in which at most K   *)
(* dimensions leave their base value:                                      *)
(*   ImplValid    the assembled document is ValidTree (DSP0203 table)      *)
(*   ImplHeaders  CIMMethod / CIMObject agree with the body                *)
(* Variant = {} (repaired design) must pass; Variant = Pinned (the tree as *)
(* originally pinned) is expected to fail (ExportIndication with a path,   *)
(* SCOPE ANY, real keys in CIMObject); the regression flags (keephost,    *)
(* hdr_before_default, minst_order, ns_drop_empty) must fail.  With        *)
(* Emit = TRUE the same run prints the cases as JSON for the harness (the  *)
(* WireOps_Gen role).                                                      *)
(***************************************************************************)
EXTENDS WireOpsImplOps, Json, FiniteSets

CONSTANTS K, Variant, Emit

VARIABLE c

Init == c \in Cases(K)
Next == UNCHANGED c
Spec == Init /\ [][Next]_c

(* The same case space reached in two steps (start -> operation -> its      *)
(* cases), so that TLC's workers share the evaluation (initial states are   *)
(* computed by one thread).  States that are not cases satisfy every        *)
(* invariant vacuously.                                                      *)
IsCase == "args" \in DOMAIN c
InitPar == c = [op |-> "#start"]
NextPar == \/ /\ DOMAIN c = {"op"} /\ c.op = "#start"
              /\ \E o \in Ops : c' = [op |-> o, stage |-> "#op"]
           \/ /\ DOMAIN c = {"op", "stage"}
              /\ c' \in CasesOfOp(c.op, K)
SpecPar == InitPar /\ [][NextPar]_c
NonCaseStates == Cardinality(Ops) + 1

R == ImplReq(c, Variant)

AsEvent(r) ==
  [kind |-> "req", emitted |-> r.emit, wf |-> TRUE, cls |-> <<"ascii">>,
   tree |-> r.tree,
   hdr |-> [mhas |-> TRUE, mok |-> TRUE, ohas |-> r.hdr.form # "none",
            ook |-> TRUE, method |-> r.hdr.method, form |-> r.hdr.form,
            ns |-> r.hdr.ns, nss |-> r.hdr.ns, cls |-> r.hdr.cls,
            keys |-> r.hdr.keys]]

ImplValid == IsCase => (R.emit => ValidTree(R.tree))
ImplHeaders == IsCase =>
                 ((R.emit /\ ValidTree(R.tree)) => HeaderFaults(AsEvent(R)) = {})
ImplReqOk == IsCase => Fails(InitState, AsEvent(R)) = {}

EmitInv == (Emit /\ IsCase) => PrintT(<<"CASE", ToJson(c)>>)

ASSUME Variant \subseteq Flags
(* every namespace value class occurs in every role of the case space *)
ASSUME \A cl \in NsClasses :
         \A role \in {{"d1", "d2", "de", "dg"}, {"a1", "a2", "ae", "ag"},
                      {"o", "oe", "og"}, {"c", "ce", "cg"}, {"r", "re", "rg"}} :
           \E id \in role : NsClassOf(NsTok(id)) = cl
ASSUME PrintT(<<"OPTABLE", ToJson(OpTable)>>)
ASSUME PrintT(<<"ITERTARGET", ToJson(IterTarget)>>)
=============================================================================
