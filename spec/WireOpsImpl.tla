------------------------------ MODULE WireOpsImpl ------------------------------
(***************************************************************************)
(* C03 - TLC checks the code-shaped request assembly (WireOpsImplOps)      *)
(* against the requirement (WireOps / CimXmlDtd) for EVERY case of the     *)
(* case space: 41 operation methods x argument shapes in which at most K   *)
(* dimensions leave their base value:                                      *)
(*   ImplValid    the assembled document is ValidTree (DSP0203 table)      *)
(*   ImplHeaders  CIMMethod / CIMObject agree with the body                *)
(* Variant = {} (repaired design) must pass; Variant = Pinned (the tree as *)
(* originally pinned) is expected to fail (ExportIndication with a path,   *)
(* SCOPE ANY, real keys in CIMObject); the regression flags (keephost,    *)
(* hdr_before_default, minst_order, ns_drop_empty, wrap_host_first,        *)
(* name_host_first, ns_shared, refarray_inst_first) must fail.  The object  *)
(* case space (ObjCases:                                                   *)
(* tocimxml() of names / instances / classes / properties / parameter      *)
(* values over path shape x ignore arguments x reference shapes) is        *)
(* checked the same way (ValidTree; no headers).  With Emit = TRUE the     *)
(* same run prints the cases as JSON for the harness (the WireOps_Gen      *)
(* role).                                                                  *)
(***************************************************************************)
EXTENDS WireOpsImplOps, Json, FiniteSets, SequencesExt

CONSTANTS K, Variant, Emit

VARIABLE c

Init == c \in Cases(K) \cup ObjCases
Next == UNCHANGED c
Spec == Init /\ [][Next]_c

(* The same case space reached in two steps (start -> operation -> its      *)
(* cases), so that TLC's workers share the evaluation (initial states are   *)
(* computed by one thread).  States that are not cases satisfy every        *)
(* invariant vacuously.                                                      *)
IsCase == "args" \in DOMAIN c \/ "kind" \in DOMAIN c
InitPar == c = [op |-> "#start"]
NextPar == \/ /\ DOMAIN c = {"op"} /\ c.op = "#start"
              /\ \E o \in Ops \cup {"#obj"} : c' = [op |-> o, stage |-> "#op"]
           \/ /\ DOMAIN c = {"op", "stage"}
              /\ c' \in IF c.op = "#obj" THEN ObjCases ELSE CasesOfOp(c.op, K)
SpecPar == InitPar /\ [][NextPar]_c
NonCaseStates == Cardinality(Ops) + 2

R == DocOf(c, Variant)

AsEvent(r) ==
  [kind |-> IF IsObjCase(c) THEN "obj" ELSE "req",
   emitted |-> r.emit, wf |-> TRUE, cls |-> <<"ascii">>,
   tree |-> r.tree,
   hdr |-> [mhas |-> TRUE, mok |-> TRUE, ohas |-> r.hdr.form # "none",
            ook |-> TRUE, method |-> r.hdr.method, form |-> r.hdr.form,
            ns |-> r.hdr.ns, nss |-> r.hdr.ns, cls |-> r.hdr.cls,
            keys |-> r.hdr.keys]]

ImplValid == IsCase => (R.emit => ValidTree(R.tree))
ImplHeaders == (IsCase /\ ~IsObjCase(c)) =>
                 ((R.emit /\ ValidTree(R.tree)) => HeaderFaults(AsEvent(R)) = {})
ImplReqOk == IsCase => Fails(InitState, AsEvent(R)) = {}

(* the cases are printed with the coincidence class of their document      *)
(* (WireOpsImplOps!Coincidence): the harness spells coinciding namespaces    *)
(* identically                                                               *)
EmitInv == (Emit /\ IsCase) =>
             PrintT(<<"CASE", ToJson(c), Coincidence(DocOf(c, {}).tree)>>)

ASSUME Variant \subseteq Flags
(* every namespace value class occurs in every role of the case space *)
ASSUME \A cl \in NsClasses :
         \A role \in {{"d1", "d2", "de", "dg"}, {"a1", "a2", "ae", "ag"},
                      {"o", "oe", "og"}, {"c", "ce", "cg"}, {"r", "re", "rg"}} :
           \E id \in role : NsClassOf(NsTok(id)) = cl
(* every path shape occurs for every kind that has or is a path, with every *)
(* combination of its ignore arguments; every reference shape occurs in     *)
(* every place a reference value can stand                                  *)
ASSUME \A sh \in PathShapes \ {"none"} :
         /\ \E f \in InstForms : PathShapeOf(f) = sh
         /\ \E f \in ClassForms : PathShapeOf(f) = sh
ASSUME \A kind \in {"iname", "cname", "inst", "class"} :
         \A sh \in PathShapes \ (IF kind \in {"inst", "class"} THEN {} ELSE {"none"}) :
           \A ign \in (IF kind = "inst" THEN InstIgnSeqs
                       ELSE IF kind = "class" THEN {<<>>} ELSE NameIgnSeqs) :
             \E oc \in ObjCases :
               oc.kind = kind /\ PathShapeOf(oc.f) = sh /\ oc.ign = ign
ASSUME \A sh \in RefShapes :
         /\ \E oc \in ObjCases : oc.kind = "prop" /\ oc.pr = <<sh>>
         /\ \E oc \in ObjCases : oc.kind = "inst" /\ oc.pr = <<sh>>
         /\ \E oc \in ObjCases : oc.kind = "class" /\ oc.pr = <<sh>>
         /\ \E oc \in ObjCases :
              oc.kind = "param" /\ oc.pr = <<IF sh = "ref" THEN "refi" ELSE sh>>
         /\ sh \in InstRefShapes =>
              /\ \E oc \in ObjCases : oc.kind = "iname" /\ oc.kb = <<sh>>
              /\ \E oc \in ObjCases : oc.kind = "inst" /\ oc.kb = <<sh>>
         /\ sh \in PropShapes /\ <<sh>> \in InstContents
         /\ (IF sh = "ref" THEN "refi" ELSE sh) \in MParamShapes
ASSUME \A sh \in InstRefShapes : <<sh>> \in KbShapes
ASSUME \A sh \in RefShapes : RefSpec(sh).deep # "" => RefSpec(sh).deep \in InstRefShapes
(* every pair of roles in which two paths of one document can lie in the    *)
(* same namespace is reached by a case with at most one dimension off base   *)
(* or by an object case (checked by the enumeration run only: it builds      *)
(* the documents)                                                            *)
ASSUME Emit => \A pr \in CoinRolePairs :
                 \E cc \in Cases(1) \cup ObjCases :
                   pr \in CoinPairs(DocOf(cc, {}).tree)
ASSUME Emit => \A k \in {"iname", "inst", "class", "prop", "param"} :
                 \E cc \in ObjCases :
                   cc.kind = k /\ Coincidence(ObjTree(cc, {})) = "same"
(* arrays of references: every kind of item mix occurs, as a request        *)
(* parameter in every form (tuple / keyword / CIMParameter) and as an        *)
(* object case                                                               *)
ASSUME \A k \in RefArrayKinds :
         \E sh \in DOMAIN MRefArrays :
           /\ RefArrayKind(sh) = k
           /\ sh \in MParamShapes
           /\ \E oc \in ObjCases : oc.kind = "param" /\ oc.pr = <<sh>>
(* extension header values: what a receiver reads from the value            *)
(* _quote_edge_blanks() writes is the value, for every value of up to 5      *)
(* characters; every edge-blank form occurs among them; the regression       *)
(* (trailing blanks counted with rstrip) is wrong exactly on the values of   *)
(* form "only", i.e. that form is needed to see it                           *)
ASSUME \A v \in HdrValues(5) : Received(QuoteEdgeBlanks(v, {})) = v
ASSUME \A f \in EdgeBlankForms : \E v \in HdrValues(5) : EdgeBlankFormOf(v) = f
ASSUME \A v \in HdrValues(5) :
         (Received(QuoteEdgeBlanks(v, {"edge_rstrip"})) # v)
           <=> EdgeBlankFormOf(v) = "only"
ASSUME PrintT(<<"EDGEFORMS", ToJson(SetToSeq(EdgeBlankForms))>>)
ASSUME PrintT(<<"OPTABLE", ToJson(OpTable)>>)
ASSUME PrintT(<<"REFSPEC", ToJson([sh \in RefShapes \cup {"refi"} |-> RefSpec(sh)])>>)
ASSUME PrintT(<<"MREFARRAYS", ToJson(MRefArrays)>>)
ASSUME PrintT(<<"ITERTARGET", ToJson(IterTarget)>>)
ASSUME PrintT(<<"HDRCLASSES", ToJson(SetToSeq(HdrNameClasses))>>)
=============================================================================
