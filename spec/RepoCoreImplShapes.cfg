SPECIFICATION Spec
CONSTANTS
  AliasKeys = FALSE
  ArrayOneWay = FALSE
  NsU = {1}
  ClsU = {"A", "B"}
  KeyU = {1}
  ValS = {"unset", "v1"}
  ValT = {"unset"}
  ValU = {"unset", "v1"}
  BadU <- BadAll
  GenDepth = 0
INVARIANT ImplRefinesReq
INVARIANT ReqWellFormed
INVARIANT MappingHolds
CHECK_DEADLOCK FALSE
