SPECIFICATION Spec
CONSTANTS
  V <- VFixed
  MaxLen = 6
  HistFmts = {"standard", "canonical"}
  PrintFmts = {"standard", "historical", "canonical"}
  ObsSeq <- ObsAllFmts
INVARIANT HistRoundTrip
INVARIANT HistIndependent
INVARIANT HistWellFormed
CHECK_DEADLOCK FALSE
