----------------------------- MODULE CimWireMC -----------------------------
(***************************************************************************)
(* C01, object level.  A small BUILDER MACHINE constructs abstract CIM     *)
(* object trees (as the element records of CimWire.tla): every action adds *)
(* one element or sets one attribute, so every reachable state is a        *)
(* complete tree and TLC visits all trees up to MaxEls elements:           *)
(*                                                                         *)
(*   AddProp(type, shape, value)   shape in null / scalar / [] / [v] /     *)
(*                                 [NULL] / [v, NULL] / arrays with two    *)
(*                                 NULL entries (ShapeSeq)                 *)
(*   AddRefProp, AddKey, AddRefKey (keybindings incl. nested references)   *)
(*   AddEmb(instance | class)      embedded object, depth <= MaxDepth      *)
(*   AddQual, AddMeth, AddParm                                             *)
(*   SetAttr(class_origin | propagated | array_size | reference_class |    *)
(*           flavors | scopes)     from None to a value                    *)
(*   SetPath, SetLoc(host?, namespace?), Up                                *)
(*                                                                         *)
(* TLC checks on every tree                                                *)
(*   NormIdempotent   Norm(Norm(t)) = Norm(t)                              *)
(*   ReqAcceptsNorm   the requirement accepts the tree itself (None stays  *)
(*                    None) and the DSP0201-defaulted tree Norm(t), i.e.   *)
(*                    Norm changes nothing the statement protects          *)
(*   ReqRejects       the requirement rejects a tree in which one          *)
(*                    protected thing was altered (Mutants)                *)
(*   ImplMeetsReq     the code-shaped wire model (encoder + XML 1.0 reader *)
(*                    + parser, variant W) satisfies the requirement,      *)
(*                    second round included                                *)
(*                                                                         *)
(* CimWireMC.cfg       W = WFixed (the repaired design): must pass.        *)
(* CimWireMCAsIs*.cfg  W = the pinned tree's variants, one defect each:    *)
(*                     ImplMeetsReq must FAIL (design-level counter-       *)
(*                     examples: NULL entry in a numeric array, CR in a    *)
(*                     string, char16 keybinding, boolean FALSE parameter  *)
(*                     value).                                             *)
(* CimWireMCNulls.cfg  every valued element kind x arrays with 0, 1 and    *)
(*                     >= 2 NULL entries (all ShapeSeq shapes): must pass. *)
(* CimWireMCSharedNull.cfg  W = one shared VALUE.NULL DOM node: must FAIL. *)
(* CimWireMCEmbEmpty.cfg    W = empty embedded-object array parsed as NULL:*)
(*                     must FAIL.                                          *)
(* CimWireMCKeyProp.cfg an instance WITH its path whose keybindings have   *)
(*                     same-named properties (all CimWire!KeyRel cases x   *)
(*                     the three path forms): must pass; ReqKeepsOwnKeys;  *)
(*                     EmitKeyProp prints the trees for the binding.       *)
(* CimWireMCPathFirst.cfg   W = properties added to an instance that       *)
(*                     already has its path (key propagation): must FAIL.  *)
(* CimWireMCEmbPath.cfg W = an embedded instance with a path is written   *)
(*                     with it (the pinned tree): must FAIL.               *)
(* CimWireMCSim.cfg    larger constants, -simulate: abstract trees for the *)
(*                     binding (the harness concretises them).             *)
(***************************************************************************)
EXTENDS CimWire

CONSTANTS Types, QualTypes, KeyTypes, Shapes, StrVals, CharVals, Names,
          MaxEls, MaxDepth, MaxKids, MaxAttrs, Modes, W, RootKinds,
          EmbPaths      \* TRUE: embedded instances may have their path set

StrValsSmall == {<<>>, <<"ltr">>, <<"sp", "cr">>, <<"lt", "amp">>}
StrValsOne == {<<"lt", "cr">>}
StrValsKey == {<<"ltr">>, <<"ltr", "sp", "amp">>}
StrValsSim == {<<>>, <<"ltr">>, <<"sp", "ltr", "sp">>, <<"lt", "amp", "gt">>,
               <<"rbr", "rbr", "gt">>, <<"quot", "apos">>, <<"lf", "tab">>,
               <<"astral", "nbsp">>, <<"amp", "ltr", "ltr">>}

VARIABLES els, cur, last, mode, nattr
vars == <<els, cur, last, mode, nattr>>

Blank(path, et, nm, lvl) ==
  [path |-> path, et |-> et, name |-> nm, lname |-> nm, type |-> "",
   arr |-> "", asize |-> -1, rc |-> "~", co |-> "~", pg |-> "N", emb |-> "N",
   ovr |-> "N", tsc |-> "N", tin |-> "N", trl |-> "N", host |-> "~",
   ns |-> "~", sup |-> "~", isnull |-> FALSE, val |-> <<>>, vt |-> <<>>,
   cls |-> <<>>, kids |-> <<>>, scopes |-> <<>>, lvl |-> lvl, hp |-> "N"]

IntTypes == {"uint8", "sint8", "uint16", "sint16", "uint32", "sint32",
             "uint64", "sint64"}
(* datetime values: an interval and one timestamp per UTC offset class of  *)
(* CimWire!DtOffsetClass (zero, +-whole hours, +-not whole hours: -210 and *)
(* -030, where truncating hours and taking minutes apart differ)           *)
DtVals == {"d:iv"} \cup DtTsToks
DtValsSmall == {"d:iv", "d:ts"}
ValSpace(t) ==
  CASE t = "string"   -> StrVals
    [] t = "char16"   -> {<<c>> : c \in CharVals}
    [] t = "boolean"  -> {"b:T", "b:F"}
    [] t = "datetime" -> DtVals
    [] t \in IntTypes -> {"i:min", "i:max"}
    [] t = "numeric"  -> {"i:int"}
    [] OTHER          -> {"r:frac", "r:nan", "r:inf"}

VtOf(t) == CASE t = "string" -> "str" [] t = "numeric" -> "int" [] OTHER -> t
TokOf(t, v) == IF t \in {"string", "char16"} THEN "s:" ELSE v
ClsOf(t, v) == IF t \in {"string", "char16"} THEN v ELSE <<>>

(* array shapes: which entries hold the value v and which are NULL.  The    *)
(* shapes cover the NULL multiplicities of CimWire!NullMult: none ("v",    *)
(* "vv"), one ("n", "vn", "nv"), many: adjacent ("nn"), separated by a     *)
(* value ("nvn"), before / after values ("nnv", "vnn"), alternating with a *)
(* value at the end ("nvnv")                                               *)
ShapeSeq(sh) ==
  CASE sh = "v" -> <<"v">> [] sh = "n" -> <<"n">>
    [] sh = "vn" -> <<"v", "n">> [] sh = "nv" -> <<"n", "v">>
    [] sh = "vv" -> <<"v", "v">> [] sh = "nn" -> <<"n", "n">>
    [] sh = "nvn" -> <<"n", "v", "n">> [] sh = "nnv" -> <<"n", "n", "v">>
    [] sh = "vnn" -> <<"v", "n", "n">> [] sh = "nvnv" -> <<"n", "v", "n", "v">>

Valued(el, t, sh, v) ==
  LET one == <<TokOf(t, v)>>
      base == [el EXCEPT !.type = t] IN
  CASE sh = "null"   -> [base EXCEPT !.isnull = TRUE, !.arr = "s"]
    [] sh = "nulla"  -> [base EXCEPT !.isnull = TRUE, !.arr = "a"]
    [] sh = "scalar" -> [base EXCEPT !.arr = "s", !.val = one, !.vt = <<VtOf(t)>>,
                                     !.cls = <<ClsOf(t, v)>>]
    [] sh = "empty"  -> [base EXCEPT !.arr = "a"]
    [] OTHER ->
       LET q == ShapeSeq(sh) IN
       [base EXCEPT !.arr = "a",
          !.val = [k \in DOMAIN q |-> IF q[k] = "v" THEN TokOf(t, v) ELSE "~"],
          !.vt  = [k \in DOMAIN q |-> IF q[k] = "v" THEN VtOf(t) ELSE "~"],
          !.cls = [k \in DOMAIN q |-> IF q[k] = "v" THEN ClsOf(t, v) ELSE <<>>]]

Top == els[cur[Len(cur)]]
TopI == cur[Len(cur)]
KidPath(p, cat, nm) == p.path \o cat \o ":" \o nm \o "/"
AddChild(es, pi, cat, el) ==
  [es EXCEPT ![pi].kids = Append(@, cat \o ":" \o el.lname)] \o <<el>>
Free(p, cat) == {n \in Names : (cat \o ":" \o n) \notin Rng(p.kids)}
NKids(p, cat) == Cardinality({k \in DOMAIN p.kids : p.kids[k] \in {cat \o ":" \o n : n \in Names}})
Room == Len(els) < MaxEls

(*------------------------------ roots ------------------------------------*)
RootValued(k) ==
  UNION {{Valued(Blank("/", k, "a", 0), t, sh, v) : sh \in Shapes, v \in ValSpace(t)} :
            t \in (IF k = "prop" THEN Types \ {"reference"}
                   ELSE IF k = "pval" THEN Types \ {"reference"} ELSE QualTypes)}

Init ==
  /\ mode \in Modes
  /\ cur = <<1>> /\ last = 1 /\ nattr = 0
  /\ \E k \in RootKinds :
        IF k \in {"inst", "class", "ipath", "cpath"}
        THEN els = <<Blank("/", k, "a", 0)>>
        ELSE IF k = "meth"
        THEN \E t \in Types \ {"reference"} : els = <<[Blank("/", k, "a", 0) EXCEPT !.type = t]>>
        ELSE IF k = "parm"
        THEN \E t \in Types, a \in {"s", "a"} :
                els = <<[Blank("/", k, "a", 0) EXCEPT !.type = t, !.arr = a]>>
        ELSE \E el \in RootValued(k) :
                els = <<IF k = "pval" /\ el.isnull THEN [el EXCEPT !.arr = "s"] ELSE el>>

(*----------------------------- actions -----------------------------------*)
AddProp ==
  /\ Room /\ Top.et \in {"inst", "class"} /\ NKids(Top, "prop") < MaxKids
  /\ \E nm \in Free(Top, "prop"), t \in Types \ {"reference"}, sh \in Shapes :
       \E v \in ValSpace(t) :
          /\ els' = AddChild(els, TopI, "prop",
                             Valued(Blank(KidPath(Top, "prop", nm), "prop", nm, Top.lvl),
                                    t, sh, v))
          /\ last' = Len(els) + 1
  /\ UNCHANGED <<cur, mode, nattr>>

(* reference property: NULL, or an instance path that is then filled in    *)
AddRefProp ==
  /\ Len(els) + 1 < MaxEls /\ "reference" \in Types
  /\ Top.et \in {"inst", "class"} /\ NKids(Top, "prop") < MaxKids
  /\ \E nm \in Free(Top, "prop"), withval \in BOOLEAN, pk \in {"ipath", "cpath"} :
       LET p0 == [Blank(KidPath(Top, "prop", nm), "prop", nm, Top.lvl)
                    EXCEPT !.type = "reference", !.arr = "s"]
           p1 == IF withval THEN [p0 EXCEPT !.val = <<"@ref">>, !.vt = <<"path">>,
                                            !.cls = << <<>> >>]
                 ELSE [p0 EXCEPT !.isnull = TRUE]
           es1 == AddChild(els, TopI, "prop", p1)
       IN IF withval
          THEN /\ els' = es1 \o <<Blank(p1.path \o "ref:0/", pk, "b", Top.lvl)>>
               /\ cur' = Append(cur, Len(els) + 2)
               /\ last' = Len(els) + 1
          ELSE /\ els' = es1 /\ cur' = cur /\ last' = Len(els) + 1
  /\ UNCHANGED <<mode, nattr>>

(* embedded objects: scalar, arrays with one object (and a NULL entry      *)
(* before / after it), and - where the configuration's Shapes say so - the *)
(* values WITHOUT an object: NULL, NULL array, EMPTY array                 *)
EmbShapes == {"scalar", "v", "vn"} \cup (Shapes \cap {"nv", "empty", "null", "nulla"})
EmbSeq(sh) == IF sh = "scalar" THEN <<"v">>
              ELSE IF sh \in {"empty", "null", "nulla"} THEN <<>> ELSE ShapeSeq(sh)
AddEmb ==
  /\ Room /\ "string" \in Types
  /\ Top.et \in {"inst", "class"} /\ Top.lvl < MaxDepth /\ NKids(Top, "prop") < MaxKids
  /\ \E nm \in Free(Top, "prop"), kind \in {"inst", "class"}, sh \in EmbShapes :
       LET q == EmbSeq(sh)
           objs == {k \in DOMAIN q : q[k] = "v"}
           p0 == [Blank(KidPath(Top, "prop", nm), "prop", nm, Top.lvl)
                    EXCEPT !.type = "string",
                           !.emb = IF kind = "inst" THEN "instance" ELSE "object",
                           !.arr = IF sh \in {"scalar", "null"} THEN "s" ELSE "a",
                           !.isnull = sh \in {"null", "nulla"},
                           !.val = [k \in DOMAIN q |-> IF q[k] = "v" THEN "@emb" ELSE "~"],
                           !.vt = [k \in DOMAIN q |-> IF q[k] = "v" THEN "object" ELSE "~"],
                           !.cls = [k \in DOMAIN q |-> <<>>]]
       IN IF objs = {}
          THEN /\ els' = AddChild(els, TopI, "prop", p0)
               /\ cur' = cur
               /\ last' = Len(els) + 1
          ELSE LET k == CHOOSE k \in objs : TRUE      \* exactly one object
                   ix == IF k = 1 THEN "0" ELSE "1" IN
               /\ Len(els) + 1 < MaxEls
               /\ els' = AddChild(els, TopI, "prop", p0)
                           \o <<Blank(p0.path \o "emb:" \o ix \o "/", kind, "c", Top.lvl + 1)>>
               /\ cur' = Append(cur, Len(els) + 2)
               /\ last' = Len(els) + 1
  /\ UNCHANGED <<mode, nattr>>

QualTargets ==
  (IF Top.et \in {"inst", "class"} THEN {TopI} ELSE {})
  \cup (IF els[last].et \in {"prop", "meth", "parm"} THEN {last} ELSE {})

AddQual ==
  /\ Room
  /\ \E ti \in QualTargets :
       /\ NKids(els[ti], "qual") < MaxKids
       /\ \E nm \in Free(els[ti], "qual"), t \in QualTypes, sh \in Shapes \ {"nulla"} :
            \E v \in ValSpace(t) :
               els' = AddChild(els, ti, "qual",
                               Valued(Blank(KidPath(els[ti], "qual", nm), "qual", nm,
                                            els[ti].lvl), t, sh, v))
  /\ last' = Len(els) + 1
  /\ UNCHANGED <<cur, mode, nattr>>

AddMeth ==
  /\ Room /\ Top.et = "class" /\ NKids(Top, "meth") < MaxKids
  /\ \E nm \in Free(Top, "meth"), t \in Types \ {"reference"} :
       els' = AddChild(els, TopI, "meth",
                       [Blank(KidPath(Top, "meth", nm), "meth", nm, Top.lvl)
                          EXCEPT !.type = t])
  /\ last' = Len(els) + 1
  /\ UNCHANGED <<cur, mode, nattr>>

Meths == {i \in DOMAIN els : els[i].et = "meth"}
AddParm ==
  /\ Room /\ Meths # {}
  /\ LET mi == CHOOSE i \in Meths : \A j \in Meths : j <= i IN
     /\ NKids(els[mi], "parm") < MaxKids
     /\ \E nm \in Free(els[mi], "parm"), t \in Types, a \in {"s", "a"} :
          els' = AddChild(els, mi, "parm",
                          [Blank(KidPath(els[mi], "parm", nm), "parm", nm, els[mi].lvl)
                             EXCEPT !.type = t, !.arr = a])
  /\ last' = Len(els) + 1
  /\ UNCHANGED <<cur, mode, nattr>>

AddKey ==
  /\ Room /\ Top.et = "ipath" /\ NKids(Top, "kb") < MaxKids
  /\ \E nm \in Free(Top, "kb"), t \in KeyTypes :
       \E v \in ValSpace(t) :
          els' = AddChild(els, TopI, "kb",
                          Valued(Blank(KidPath(Top, "kb", nm), "kb", nm, Top.lvl),
                                 t, "scalar", v))
  /\ last' = Len(els) + 1
  /\ UNCHANGED <<cur, mode, nattr>>

AddRefKey ==
  /\ Len(els) + 1 < MaxEls /\ Top.et = "ipath" /\ NKids(Top, "kb") < MaxKids
  /\ Len(cur) <= MaxDepth
  /\ \E nm \in Free(Top, "kb") :
       LET k0 == [Blank(KidPath(Top, "kb", nm), "kb", nm, Top.lvl)
                    EXCEPT !.type = "reference", !.arr = "s", !.val = <<"@ref">>,
                           !.vt = <<"path">>, !.cls = << <<>> >>]
       IN /\ els' = AddChild(els, TopI, "kb", k0)
                      \o <<Blank(k0.path \o "ref:0/", "ipath", "b", Top.lvl)>>
          /\ cur' = Append(cur, Len(els) + 2)
  /\ last' = Len(els) + 1
  /\ UNCHANGED <<mode, nattr>>

(* the path of a top-level instance (VALUE.NAMEDINSTANCE & co carry it)    *)
SetPath ==
  /\ Room /\ Len(cur) = 1 /\ Top.et = "inst" /\ Top.path = "/"
  /\ "path" \notin Rng(Top.kids)
  /\ els' = [els EXCEPT ![1].kids = Append(@, "path")]
              \o <<Blank("/path/", "ipath", Top.lname, 0)>>
  /\ cur' = Append(cur, Len(els) + 1)
  /\ last' = Len(els) + 1
  /\ UNCHANGED <<mode, nattr>>

(* host only together with a namespace: DSP0201 has no element for a host  *)
(* without namespace                                                       *)
SetLoc ==
  /\ Top.et \in {"ipath", "cpath"} /\ Top.ns = "~"
  /\ \E h \in {"~", "h"} :
       els' = [els EXCEPT ![TopI].ns = "n", ![TopI].host = h]
  /\ UNCHANGED <<cur, last, mode, nattr>>

(* an EMBEDDED instance object whose `path` attribute is set (e.g. an       *)
(* instance retrieved from a server, used as embedded object value): the   *)
(* path is not transmitted, the object must survive                        *)
SetEmbPath ==
  /\ EmbPaths /\ Top.et = "inst" /\ Top.lvl > 0 /\ Top.hp = "N"
  /\ els' = [els EXCEPT ![TopI].hp = "Y"]
  /\ UNCHANGED <<cur, last, mode, nattr>>

SetSuper ==
  /\ Top.et = "class" /\ Top.sup = "~"
  /\ els' = [els EXCEPT ![TopI].sup = "x"]
  /\ UNCHANGED <<cur, last, mode, nattr>>

SetAttr ==
  LET el == els[last] IN
  /\ \/ /\ el.et \in {"prop", "meth"} /\ el.co = "~"
        /\ els' = [els EXCEPT ![last].co = "x"]
     \/ /\ HasPg(el.et) /\ el.pg = "N"
        /\ \E b \in {"T", "F"} : els' = [els EXCEPT ![last].pg = b]
     \/ /\ el.et \in {"prop", "parm", "qdecl"} /\ el.arr = "a" /\ el.asize = -1
        /\ \E n \in {0, 2} : els' = [els EXCEPT ![last].asize = n]
     \/ /\ el.et \in {"prop", "parm"} /\ el.type = "reference" /\ el.rc = "~"
        /\ els' = [els EXCEPT ![last].rc = "x"]
     \/ /\ HasFlv(el.et)
        /\ \E a \in {"ovr", "tsc", "tin", "trl"}, b \in {"T", "F"} :
             /\ el[a] = "N"
             /\ els' = [els EXCEPT ![last][a] = b]
     \/ /\ el.et = "qdecl" /\ el.scopes = <<>>
        /\ \E sc \in {<<"CLASS">>, <<"ASSOCIATION", "PROPERTY">>} :
             els' = [els EXCEPT ![last].scopes = sc]
  /\ nattr < MaxAttrs /\ nattr' = nattr + 1
  /\ UNCHANGED <<cur, last, mode>>

Up == /\ Len(cur) > 1
      /\ cur' = SubSeq(cur, 1, Len(cur) - 1)
      /\ UNCHANGED <<els, last, mode, nattr>>

Next == \/ AddProp \/ AddRefProp \/ AddEmb \/ AddQual \/ AddMeth \/ AddParm
        \/ AddKey \/ AddRefKey \/ SetPath \/ SetLoc \/ SetSuper \/ SetAttr \/ Up
        \/ SetEmbPath
Spec == Init /\ [][Next]_vars

(*---------------------------- invariants ---------------------------------*)
Ev(got) == [op |-> "obj", mode |-> mode, enc |-> "ok", parse |-> "ok",
            orig |-> els, got |-> got, enc2 |-> "ok", parse2 |-> "ok",
            got2 |-> got, x1 |-> "x", x2 |-> "x", uncl |-> FALSE]

NormIdempotent == Norm(Norm(els)) = Norm(els)
ReqAcceptsNorm == ObjFails(Ev(els)) = {} /\ ObjFails(Ev(Norm(els))) = {}

(* one protected thing altered in element i: the requirement must notice   *)
Mutants(el) ==
  {[el EXCEPT !.lname = "zz"], [el EXCEPT !.type = "sint8x"],
   [el EXCEPT !.arr = IF el.arr = "a" THEN "s" ELSE "a"],
   [el EXCEPT !.isnull = ~el.isnull],
   [el EXCEPT !.asize = el.asize + 1], [el EXCEPT !.rc = "y"],
   [el EXCEPT !.co = "y"], [el EXCEPT !.host = "g"], [el EXCEPT !.ns = "m"],
   [el EXCEPT !.sup = "y"], [el EXCEPT !.emb = "other"],
   [el EXCEPT !.kids = <<"prop:zz">> \o el.kids],
   [el EXCEPT !.scopes = <<"METHOD">> \o el.scopes]}
  \cup (IF Len(el.kids) > 1
        THEN {[el EXCEPT !.kids = Tail(el.kids) \o <<Head(el.kids)>>]} ELSE {})
  \cup (IF el.val # <<>>
        THEN {[el EXCEPT !.val = Tail(el.val)],
              [el EXCEPT !.val[1] = IF el.val[1] = "~" THEN "i:0" ELSE "~"],
              [el EXCEPT !.val[1] = "other"]}
        ELSE {})
  \cup (IF NullMult(el.val) = "many"      \* one of several NULL entries lost
        THEN LET f == CHOOSE i \in NullPos(el.val) : \A j \in NullPos(el.val) : i <= j
                 drop(q) == SubSeq(q, 1, f - 1) \o SubSeq(q, f + 1, Len(q))
             IN {[el EXCEPT !.val = drop(el.val), !.vt = drop(el.vt),
                            !.cls = drop(el.cls)]}
        ELSE {})
  \cup (IF HasPg(el.et) /\ el.pg # "N"
        THEN {[el EXCEPT !.pg = IF el.pg = "T" THEN "F" ELSE "T"],
              [el EXCEPT !.pg = "N"]} ELSE {})
  \cup (IF HasPg(el.et) /\ el.pg = "N" THEN {[el EXCEPT !.pg = "T"]} ELSE {})
  \cup (IF HasFlv(el.et) /\ el.ovr = "N" THEN {[el EXCEPT !.ovr = "F"]} ELSE {})
  \cup (IF HasFlv(el.et) /\ el.tin = "N" THEN {[el EXCEPT !.tin = "T"]} ELSE {})
  \cup (IF HasFlv(el.et) /\ el.trl = "T" THEN {[el EXCEPT !.trl = "F"]} ELSE {})
ReqRejects ==
  \A i \in DOMAIN els : \A m \in Mutants(els[i]) :
     ElemFails(els[i], m) # {}

ImplMeetsReq == ObjFails(WireEvent(els, mode, W)) = {}

(* variants of the pinned tree, one defect each (regression configurations) *)
WNull   == [WFixed EXCEPT !.nullOk = FALSE]
WCr     == [WFixed EXCEPT !.x = AsIs]
WChar16 == [WFixed EXCEPT !.char16Kb = FALSE]
WBool   == [WFixed EXCEPT !.boolPval = FALSE]
(* not the pinned tree but a realistic refactoring of CIMProperty.tocimxml *)
(* (the VALUE.NULL node hoisted out of the loop): CimWireMCSharedNull.cfg  *)
(* must FAIL ImplMeetsReq with an array property holding two NULL entries  *)
WSharedNull == [WFixed EXCEPT !.nullNode = "shared"]
(* parse_embeddedObject testing `not val` instead of `val is None`: an      *)
(* EMPTY array of embedded objects reads back as NULL                      *)
(* (CimWireMCEmbEmpty.cfg must FAIL ImplMeetsReq)                          *)
WEmbEmpty == [WFixed EXCEPT !.embEmpty = "null"]

(* the pinned tree: an embedded instance that has a path is written with   *)
(* the path (CimWireMCEmbPath.cfg must FAIL ImplMeetsReq: parse error)     *)
WEmbPath == [WFixed EXCEPT !.embPath = "kept"]

(* the parser handing the path to CIMInstance() BEFORE the properties are   *)
(* added (deprecated key propagation of CIMInstance.__setitem__): a        *)
(* keybinding of the instance's path is overwritten by the same-named      *)
(* property (CimWireMCPathFirst.cfg must FAIL ImplMeetsReq)                *)
WPathFirst == [WFixed EXCEPT !.pathAttach = "first"]

(* the requirement protects the keybindings of the instance's own path     *)
(* against the same-named properties: a tree in which a differing key took *)
(* over the property's value / type is rejected, whatever the difference   *)
ReqKeepsOwnKeys ==
  (KeyRels(els) \cap {"shape", "type", "value"} # {})
     => ObjFails(Ev(PropagateKeys(els))) # {}

(* enumeration for the binding (CimWireMCKeyProp.cfg, one worker): every    *)
(* tree with a keybinding in the instance's own path (added last, so that  *)
(* every tree is printed once per path form), with the KeyRel case of each *)
(* element                                                                 *)
EmitKeyProp ==
  (KeyRels(els) # {} /\ els[last].et = "kb" /\ Len(cur) = 2) =>
     PrintT(<<"KEYPROP", mode, els, [i \in DOMAIN els |-> KeyRel(els, i)]>>)

(* CIMDateTime.minutes_from_utc rewritten as hours (truncated toward zero)  *)
(* plus minutes (never negative): CimWireMCDtTrunc.cfg must FAIL            *)
(* ImplMeetsReq with a timestamp west of UTC by a non-whole number of hours *)
WDtTrunc == [WFixed EXCEPT !.dtOffset = "trunc"]
(* the offset classes are really all there                                 *)
ASSUME {DtOffsetClass(DtOff(t)) : t \in DtTsToks}
          = {"zero", "poswhole", "negwhole", "posfrac", "negfrac"}
ASSUME \A t \in DtTsToks : MinutesFromUtc(DtOff(t), "days") = DtOff(t)
(* enumeration for the binding (CimWireMCDt.cfg, one worker): every tree   *)
(* with a datetime value in its last element (every value position x shape *)
(* x offset class; one datetime element per tree), with the offset class   *)
(* per element                                                             *)
DtClassOf(el) ==
  LET ts == {k \in DOMAIN el.val : el.val[k] \in DtTsToks} IN
  IF el.type # "datetime" \/ ts = {} THEN "none"
  ELSE DtOffsetClass(DtOff(el.val[CHOOSE k \in ts : TRUE]))
EmitDt ==
  (/\ DtClassOf(els[last]) # "none" /\ nattr = 0
   /\ Cardinality({i \in DOMAIN els : els[i].type = "datetime"}) = 1) =>
     PrintT(<<"DTTREE", mode, els, [i \in DOMAIN els |-> DtClassOf(els[i])]>>)

(* a wrong reading of DSP0201 (PROPAGATED defaulting to true): the          *)
(* requirement must reject it (CimWireMCBadNorm.cfg must FAIL)              *)
NormBad(es) == [i \in DOMAIN es |->
                 IF HasPg(es[i].et) /\ es[i].pg = "N" THEN [es[i] EXCEPT !.pg = "T"]
                 ELSE es[i]]
ReqAcceptsBadNorm == ObjFails(Ev(NormBad(els))) = {}
=============================================================================
