SPECIFICATION Spec
CONSTANTS
  LegacyBreak = FALSE
  SwapIn = ""
  NoShadow = FALSE
  NoPreCheck = FALSE
  XParU = {}
  ModEnds = "off"
  ShallowSub = FALSE
  IgnoreNs = FALSE
  ModSharedPath = FALSE
  MaxMod = 0
  NodeU <- NodeU5
  MaxAssoc = 2
  CreateNs = {1, 2}
  ClsU = {"AB", "ABS", "ABSS", "AT", "AL"}
  AcU <- AcFull
  RcU <- RcFull
  RlU <- RlFull
  GenDepth = 0
INVARIANT ImplEqualsDecl
INVARIANT DeclSymmetric
CHECK_DEADLOCK FALSE
