\* p_instanceDeclaration / CIMInstance.tomof() (repaired embedded branch): every
\* case of "class default x instance gives" for every CIM type; prints the
\* universe for the driver.
SPECIFICATION Spec
CONSTANTS
  SkipNull = FALSE
  FillAbsent = FALSE
  OmitNull = FALSE
  EmbSkipsFalsy = FALSE
  Emit = TRUE
INVARIANT InstRoundTrip
INVARIANT NullStaysNull
INVARIANT AbsentStaysOut
CHECK_DEADLOCK FALSE
