\* Wrong variant (must FAIL ScopeRoundTrip): tomof() tests the upper-case scope names case-sensitively against the keys as spelled.
SPECIFICATION Spec
CONSTANTS
  KeyCaseSensitive = TRUE
  FlagIgnored = FALSE
  CacheSetDefault = FALSE
  CacheNotUpdated = FALSE
  EmbModeSticks = FALSE
  MaxKeys = 1
  MaxSteps = 6
  Emit = FALSE
INVARIANT ScopeRoundTrip
INVARIANT SessionRoundTrip
INVARIANT CacheCoherent
CHECK_DEADLOCK FALSE
