------------------------------ MODULE WbemServer ------------------------------
(***************************************************************************)
(* X06 - requirement machine for pywbem.WBEMServer (pywbem/_server.py):    *)
(* Interop namespace, namespace discovery, create_namespace /              *)
(* delete_namespace, brand / version, profiles / get_selected_profiles.    *)
(* Event style: Fails(s, e) = names of violated clauses, Apply(s, e).      *)
(* (get_central_instances has its own module WbemServerCentral.)           *)
(*                                                                         *)
(* Abstract names.  A namespace is [id, cs]: id "i1" "i2" "i3" are the     *)
(* documented Interop candidates 'interop', 'root/interop',                *)
(* 'root/PG_Interop' (WBEMServer.INTEROP_NAMESPACES), "n1".. ordinary      *)
(* namespaces; cs "a" / "b" are two spellings that differ in lexical case  *)
(* only ("a" = the spelling of the documentation).  Namespace names are    *)
(* case insensitive (DSP0004; pywbem: "namespace ... (case independent)"), *)
(* so the requirement talks about ids; spellings only matter where the     *)
(* documentation says so (returned "standard format").  Arguments carry    *)
(* sl = TRUE when written with leading/trailing slashes.                   *)
(*                                                                         *)
(* World (first event of a trace):                                         *)
(*   interops  the Interop-candidate namespaces that exist                 *)
(*   nskind    "prov"   namespaces are represented by CIM_Namespace        *)
(*                      instances kept in step by the server (pywbem_mock  *)
(*                      namespace provider; supports create/delete)        *)
(*             "static" instances of the classes in nscls ("CIM", "WSN" =  *)
(*                      CIM_WBEMServerNamespace, "UU" = __Namespace) list  *)
(*                      the names in `listed` (possibly without the        *)
(*                      Interop namespace: the documented old server)      *)
(*             "none"   no namespace class in the Interop namespace        *)
(*   ns        ordinary namespaces [id, cs, full] (full: has classes or    *)
(*             qualifier types)                                            *)
(*   om        the CIM_ObjectManager instances [en, desc, ver] (tokens,    *)
(*             see Brand below)                                            *)
(*   profs     CIM_RegisteredProfile instances [id, org, name, ver]        *)
(*                                                                         *)
(* Clauses and their sources (docstrings of the named attributes):         *)
(*  Interop.ReturnsExistingCandidate   interop_ns is one of the documented *)
(*        candidate names and such a namespace exists.  When several exist *)
(*        any is accepted (the search order is not promised).              *)
(*  Interop.ErrorWhenNoneExists   "CIMError: CIM_ERR_NOT_FOUND, Interop    *)
(*        namespace could not be determined" (property docstrings) or      *)
(*        ModelError (docs/changes.rst 0.12: "changed the CIMError ... in  *)
(*        several WBEMServer methods to now raise ModelError";             *)
(*        _determine_interop_ns docstring) - both accepted; applies to     *)
(*        every attribute that needs the Interop namespace.                *)
(*  Namespaces.AllAndOnly   `namespaces` = "names of all namespaces of the *)
(*        WBEM server", including the Interop namespace even if the server *)
(*        does not represent it (Note of namespace_paths).  Compared as    *)
(*        sets of ids (duplicates / order / spelling not promised).        *)
(*  Namespaces.ModelErrorWhenNoClass   "ModelError: An error with the      *)
(*        model implemented by the WBEM server".                           *)
(*  Namespaces.ClassNameOfRepresentingClass   namespace_classname is a     *)
(*        class of NAMESPACE_CLASSNAMES that the server implements.        *)
(*  Namespaces.PathsOfRepresentingInstances   namespace_paths = paths of   *)
(*        the instances representing namespaces (may lack the Interop      *)
(*        namespace, see Note).                                            *)
(*  Create.* (create_namespace; only judged for nskind "prov" / "none")    *)
(*        SucceedsWhenNew, ReturnsStandardName ("in its standard format    *)
(*        (i.e. without leading or trailing slash characters)"),           *)
(*        NamespaceExistsOnServer, ObjectReflectsNewNamespace ("update     *)
(*        this WBEMServer object to reflect the new namespace"),           *)
(*        FailsWhenExists (CIMError; pywbem_mock documents                 *)
(*        CIM_ERR_ALREADY_EXISTS / CIM_ERR_INVALID_PARAMETER "already      *)
(*        exists"), CannotCreateInterop ("This method cannot create an     *)
(*        Interop namespace"), ModelErrorWhenNoClass.                      *)
(*  Delete.* (delete_namespace)  NotFoundWhenAbsent ("CIMError:            *)
(*        CIM_ERR_NOT_FOUND, Specified namespace does not exist"),         *)
(*        NotFoundOnlyWhenAbsent (the same sentence read backwards: a      *)
(*        namespace that exists - under any spelling - is not reported as  *)
(*        not existing),                                                   *)
(*        NotEmpty ("CIM_ERR_NAMESPACE_NOT_EMPTY"), CannotDeleteInterop,   *)
(*        SucceedsWhenEmptyAndPresent, ReturnsStandardName,                *)
(*        NamespaceGoneOnServer, ObjectReflectsRemoval.                    *)
(*  Namespaces.InStepWithServer   after create / delete the `namespaces`   *)
(*        property equals the server's namespaces (read right after).      *)
(*  Brand.* / Version.*  see the operators below.                          *)
(*  Profiles.AllRegisteredProfiles; Select.FilteredSubset,                 *)
(*        Select.ModelErrorOnIncompleteProfile.                            *)
(***************************************************************************)
EXTENDS Naturals, Sequences, FiniteSets, TLC

CandSet == {"i1", "i2", "i3"}
Rng(q) == {q[i] : i \in DOMAIN q}
F(name, holds) == IF holds THEN {} ELSE {name}
Ids(S) == {x.id : x \in S}
Nm(id, cs) == [id |-> id, cs |-> cs]
NmOf(x) == Nm(x.id, x.cs)

E_NOT_FOUND == 6
E_NAMESPACE_NOT_EMPTY == 20

(*------------------------------ state ------------------------------------*)
(* s.w world; s.ns set of [id, cs] existing namespaces (Interop included); *)
(* s.full ids of non-empty namespaces                                      *)
InitState == [w |-> [interops |-> <<>>, nskind |-> "none", nscls |-> <<>>,
                     listed |-> <<>>, ns |-> <<>>, om |-> <<>>, profs |-> <<>>],
              ns |-> {}, full |-> {}]
StateOfWorld(w) ==
  [w |-> w,
   ns |-> {NmOf(x) : x \in Rng(w.interops)} \cup {NmOf(x) : x \in Rng(w.ns)},
   full |-> {x.id : x \in Rng(w.interops)}
            \cup {x.id : x \in {y \in Rng(w.ns) : y.full}}]

InteropIds(s) == Ids(s.ns) \cap CandSet
HasInterop(s) == InteropIds(s) # {}
(* ids of the namespaces the server represents, plus the Interop namespace *)
InstanceIds(s) == IF s.w.nskind = "prov" THEN Ids(s.ns)
                  ELSE Ids(Rng(s.w.listed))
AllIds(s) == InstanceIds(s) \cup InteropIds(s)
SingleInterop(s) == Cardinality(InteropIds(s)) = 1

IsErr(r, kinds) == r.k \in kinds
NoInteropOutcome(r) ==
  r.k = "ModelError" \/ (r.k = "CIMError" /\ r.code = E_NOT_FOUND)

(*------------------------------ interop ----------------------------------*)
InteropFails(s, e) ==
  IF ~HasInterop(s)
  THEN F("Interop.ErrorWhenNoneExists", NoInteropOutcome(e.res))
  ELSE F("Interop.ReturnsExistingCandidate",
         e.res.k = "ok" /\ e.res.id \in InteropIds(s))

(*----------------------------- namespaces --------------------------------*)
NsFailsCommon(s, r, okclause, holds) ==
  IF ~HasInterop(s) THEN F("Interop.ErrorWhenNoneExists", NoInteropOutcome(r))
  ELSE IF s.w.nskind = "none"
  THEN F("Namespaces.ModelErrorWhenNoClass", r.k = "ModelError")
  ELSE F(okclause, r.k = "ok" /\ holds)

NamespacesFails(s, e) ==
  NsFailsCommon(s, e.res, "Namespaces.AllAndOnly",
                e.res.k # "ok" \/ ~SingleInterop(s) \/
                Ids(Rng(e.res.names)) = AllIds(s))
ClassnameFails(s, e) ==
  NsFailsCommon(s, e.res, "Namespaces.ClassNameOfRepresentingClass",
                e.res.k # "ok" \/ e.res.cls \in Rng(s.w.nscls))
PathsFails(s, e) ==
  NsFailsCommon(s, e.res, "Namespaces.PathsOfRepresentingInstances",
                e.res.k # "ok" \/ ~SingleInterop(s) \/
                (/\ Ids(Rng(e.res.names)) = InstanceIds(s)
                 /\ Rng(e.res.cls) \subseteq Rng(s.w.nscls)))

(*------------------------- create / delete -------------------------------*)
(* judged when the world has one plain object manager and sane profiles    *)
(* (create_namespace consults brand and the advertised profiles)           *)
PlainOm(s) == Len(s.w.om) = 1 /\ s.w.om[1].en = "other"
SaneProfiles(s) == \A p \in Rng(s.w.profs) :
                      p.org # "unmapped" /\ p.name # "absent"
Judged(s) == s.w.nskind \in {"prov", "none"} /\ PlainOm(s) /\ SaneProfiles(s)
             /\ Cardinality(InteropIds(s)) <= 1

StdRet(e) == e.res.ret.id = e.n.id /\ e.res.ret.cs = e.n.cs /\ ~e.res.ret.sl
ViewOk(e, ids) == e.view.k = "ok" /\ Ids(Rng(e.view.names)) = ids

CreateFails(s, e) ==
  IF ~Judged(s) THEN {}
  ELSE IF ~HasInterop(s)
  THEN F("Interop.ErrorWhenNoneExists", NoInteropOutcome(e.res))
  ELSE IF s.w.nskind = "none"
  THEN F("Create.ModelErrorWhenNoClass", e.res.k = "ModelError")
  ELSE IF e.n.id \in CandSet /\ e.n.id \notin Ids(s.ns)
  THEN F("Create.CannotCreateInterop", e.res.k \in {"CIMError", "ModelError"})
  ELSE IF e.n.id \in Ids(s.ns)
  THEN F("Create.FailsWhenExists", e.res.k = "CIMError")
  ELSE F("Create.SucceedsWhenNew", e.res.k = "ok")
       \cup F("Create.ReturnsStandardName", e.res.k # "ok" \/ StdRet(e))
       \cup F("Create.NamespaceExistsOnServer",
              e.res.k # "ok" \/ Ids(Rng(e.srvns)) = Ids(s.ns) \cup {e.n.id})
       \cup F("Create.ObjectReflectsNewNamespace",
              e.res.k # "ok" \/
              (e.view.k = "ok" /\ e.n.id \in Ids(Rng(e.view.names))))

DeleteFails(s, e) ==
  IF ~Judged(s) THEN {}
  ELSE IF ~HasInterop(s)
  THEN F("Interop.ErrorWhenNoneExists", NoInteropOutcome(e.res))
  ELSE IF s.w.nskind = "none"
  THEN F("Namespaces.ModelErrorWhenNoClass", e.res.k = "ModelError")
  ELSE IF e.n.id \notin Ids(s.ns)
  THEN F("Delete.NotFoundWhenAbsent",
         e.res.k = "CIMError" /\ e.res.code = E_NOT_FOUND)
  ELSE IF e.res.k = "CIMError" /\ e.res.code = E_NOT_FOUND
  THEN {"Delete.NotFoundOnlyWhenAbsent"}
  ELSE IF e.n.id \in CandSet
  THEN F("Delete.CannotDeleteInterop", e.res.k = "CIMError")
  ELSE IF e.n.id \in s.full
  THEN F("Delete.NotEmpty",
         e.res.k = "CIMError" /\ e.res.code = E_NAMESPACE_NOT_EMPTY)
  ELSE F("Delete.SucceedsWhenEmptyAndPresent", e.res.k = "ok")
       \cup F("Delete.ReturnsStandardName", e.res.k # "ok" \/ StdRet(e))
       \cup F("Delete.NamespaceGoneOnServer",
              e.res.k # "ok" \/ Ids(Rng(e.srvns)) = Ids(s.ns) \ {e.n.id})
       \cup F("Delete.ObjectReflectsRemoval",
              e.res.k # "ok" \/
              (e.view.k = "ok" /\ e.n.id \notin Ids(Rng(e.view.names))))

(* after the call the object's view equals the server's namespaces *)
InStepFails(s, e) ==
  IF ~Judged(s) \/ ~HasInterop(s) \/ s.w.nskind # "prov" THEN {}
  ELSE F("Namespaces.InStepWithServer", ViewOk(e, Ids(Rng(e.srvns))))

(*--------------------------- brand / version -----------------------------*)
(* Object manager tokens.                                                  *)
(*  en  (ElementName): "pegasus" "sfcb" "jwbem" "emc" "fujitsu" - the      *)
(*      ElementName values of the five servers the docstring of `brand`    *)
(*      lists (as quoted in _determine_brand: "Pegasus", "sfcb",           *)
(*      "WBEM Solutions J WBEM Server", "EMC CIM Server", "CIM Object      *)
(*      Manager for FUJITSU storage system"); "other" any other text;      *)
(*      "empty" the empty string; "unset" NULL / not present.              *)
(*  desc (Description): "ver" "<text> Version 2.15.0"; "verrel" "<text>    *)
(*      Version 2.15.0 Released"; "rel" "<text> release 2.15.0"; "num"     *)
(*      "<text> 2.15.0"; "text" no version information; "unset".           *)
(*  ver  (Version property): "set" ("4.5.1") | "unset".                    *)
(* Result tokens of brand: the five normalised brands "OpenPegasus" "SFCB" *)
(* "JWBEM" "EMC" "FUJITSU", "asis" (= ElementName), "unknown".             *)
(* Result tokens of version: "v" ("2.15.0"), "vrest" ("2.15.0 Released"),  *)
(* "reltail" ("d": literally the string after the LAST "release", which    *)
(* sits inside "Released"), "prop" (value of the Version property),        *)
(* "none" (None).                                                          *)
(*                                                                         *)
(*  Brand.KnownServerNormalized  "For known WBEM servers, the brand is     *)
(*        then normalized in order to make it identifiable".               *)
(*  Brand.ElementNameOrUnknown   "For all other WBEM servers, the brand is *)
(*        the value of the ElementName property, or the string "unknown",  *)
(*        if that property is not set or the empty string."                *)
(*  Brand.ErrorOnUnexpectedCount  "CIMError: CIM_ERR_NOT_FOUND, Unexpected *)
(*        number of CIM_ObjectManager instances" or ModelError             *)
(*        (changes.rst, see above).                                        *)
(*  Version.FromDescriptionOrNone  "None, if the version cannot be         *)
(*        determined. ... by taking the string after "version" or          *)
(*        "release" (case insensitively)."  The per-brand extraction rules *)
(*        are not documented: every reading of "the string after" is       *)
(*        accepted, an exception is not.                                   *)
BrandOf(en) ==
  CASE en = "pegasus" -> "OpenPegasus" [] en = "sfcb" -> "SFCB"
    [] en = "jwbem" -> "JWBEM" [] en = "emc" -> "EMC"
    [] en = "fujitsu" -> "FUJITSU" [] en = "other" -> "asis"
    [] OTHER -> "unknown"
VersionAdm(om) ==
  (CASE om.desc = "ver" -> {"v"}
     [] om.desc = "verrel" -> {"v", "vrest", "reltail"}
     [] om.desc = "rel" -> {"v", "none"}
     [] om.desc = "num" -> {"v", "none"}
     [] OTHER -> {"none"})
  \cup (IF om.en = "jwbem" THEN {IF om.ver = "set" THEN "prop" ELSE "none"}
        ELSE {})
  \cup (IF om.en = "fujitsu" THEN {"none"} ELSE {})

OmCountOutcome(r) ==
  r.k = "ModelError" \/ (r.k = "CIMError" /\ r.code = E_NOT_FOUND)
BrandFails(s, e) ==
  IF ~HasInterop(s) THEN F("Interop.ErrorWhenNoneExists", NoInteropOutcome(e.res))
  ELSE IF Len(s.w.om) # 1
  THEN F("Brand.ErrorOnUnexpectedCount", OmCountOutcome(e.res))
  ELSE LET om == s.w.om[1] IN
       IF om.en \in {"pegasus", "sfcb", "jwbem", "emc", "fujitsu"}
       THEN F("Brand.KnownServerNormalized",
              e.res.k = "ok" /\ e.res.val = BrandOf(om.en))
       ELSE F("Brand.ElementNameOrUnknown",
              e.res.k = "ok" /\ e.res.val = BrandOf(om.en))
VersionFails(s, e) ==
  IF ~HasInterop(s) THEN F("Interop.ErrorWhenNoneExists", NoInteropOutcome(e.res))
  ELSE IF Len(s.w.om) # 1
  THEN F("Brand.ErrorOnUnexpectedCount", OmCountOutcome(e.res))
  ELSE F("Version.FromDescriptionOrNone",
         e.res.k = "ok" /\ e.res.val \in VersionAdm(s.w.om[1]))

(*------------------------------ profiles ---------------------------------*)
(* profile tokens: org "dmtf" "snia" "other" (values with a Values entry), *)
(* "null", "unmapped" (no Values entry); name "na" "nb" "null" "absent"    *)
(* (property missing in the instance); ver "v1" "v2" "null".  Filter       *)
(* arguments: "" = None, the same tokens (lexical case varied by the       *)
(* binding: "matching (case insensitively)"), "nomatch".                   *)
ProfilesFails(s, e) ==
  IF ~HasInterop(s) THEN F("Interop.ErrorWhenNoneExists", NoInteropOutcome(e.res))
  ELSE F("Profiles.AllRegisteredProfiles",
         /\ e.res.k = "ok"
         /\ Rng(e.res.ids) = {p.id : p \in Rng(s.w.profs)}
         /\ Len(e.res.ids) = Len(s.w.profs))
Match(f, v) == f = "" \/ (f = v /\ v \notin {"null", "absent", "unmapped"})
Selected(s, e) ==
  {p.id : p \in {x \in Rng(s.w.profs) :
        Match(e.org, x.org) /\ Match(e.name, x.name) /\ Match(e.ver, x.ver)}}
SelectFails(s, e) ==
  IF ~HasInterop(s) THEN F("Interop.ErrorWhenNoneExists", NoInteropOutcome(e.res))
  ELSE IF \E p \in Rng(s.w.profs) : p.name = "absent"
  THEN F("Select.ModelErrorOnIncompleteProfile",
         \/ e.res.k = "ModelError"
         \/ (e.res.k = "ValueError" /\ \E p \in Rng(s.w.profs) : p.org = "unmapped"))
  ELSE IF \E p \in Rng(s.w.profs) : p.org = "unmapped"
  THEN \* a value outside the ValueMap: documentation silent
       F("Select.FilteredSubset",
         \/ e.res.k \in {"ModelError", "ValueError"}
         \/ (e.res.k = "ok" /\ Rng(e.res.ids) = Selected(s, e)))
  ELSE F("Select.FilteredSubset",
         e.res.k = "ok" /\ Rng(e.res.ids) = Selected(s, e)
         /\ Len(e.res.ids) = Cardinality(Selected(s, e)))

(*------------------------------ machine ----------------------------------*)
Fails(s, e) ==
  CASE e.op = "world" -> {}
    [] e.op = "new" -> {}
    [] e.op = "interop" -> InteropFails(s, e)
    [] e.op = "namespaces" -> NamespacesFails(s, e)
    [] e.op = "classname" -> ClassnameFails(s, e)
    [] e.op = "paths" -> PathsFails(s, e)
    [] e.op = "create" -> CreateFails(s, e) \cup InStepFails(s, e)
    [] e.op = "delete" -> DeleteFails(s, e) \cup InStepFails(s, e)
    [] e.op = "brand" -> BrandFails(s, e)
    [] e.op = "version" -> VersionFails(s, e)
    [] e.op = "profiles" -> ProfilesFails(s, e)
    [] e.op = "select" -> SelectFails(s, e)
    [] OTHER -> {"UnknownOperation"}

(* the server's namespaces after create / delete are followed as observed  *)
(* (admissibility is judged by the clauses above)                          *)
Apply(s, e) ==
  CASE e.op = "world" -> StateOfWorld(e.w)
    [] e.op \in {"create", "delete"} ->
         [s EXCEPT !.ns = {NmOf(x) : x \in Rng(e.srvns)},
                   !.full = @ \cap Ids(Rng(e.srvns))]
    [] OTHER -> s

WellFormed(s) ==
  /\ \A x, y \in s.ns : x.id = y.id => x = y
  /\ s.full \subseteq Ids(s.ns)
=============================================================================
