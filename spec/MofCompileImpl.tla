--------------------------- MODULE MofCompileImpl ---------------------------
(***************************************************************************)
(* C09, code-shaped machine: MOFCompiler.compile_file / compile_string as  *)
(* a stack machine over the session's include graph.                       *)
(*                                                                         *)
(*   frame  = [f, pc, saved, savedmof]   file being parsed, next           *)
(*            production, and the values of parser.file / parser.mof saved *)
(*            by compile_string on entry                                   *)
(*   pfile  = parser.file (what an error reports as its file)              *)
(*   pmof   = the text parser.mof holds (line/column/context of an error   *)
(*            are computed by indexing THAT text with the token's offset); *)
(*            EmbText = the string of an embedded value                    *)
(*   emb    = parser.embedded_objects is not None                          *)
(*   cyc    = the class declared last (what `of_prev` names) is its own    *)
(*            ancestor in the repository                                   *)
(*   reg    = parser.classnames holds the name of a class that could not   *)
(*            be created                                                   *)
(*   nsinit = parser.classnames has an entry for the target namespace      *)
(*            (compile_string creates it for the namespace it is called    *)
(*            with - also for an include -, a created class or a compiled  *)
(*            instance creates it on the fly)                              *)
(*   lcyc   = the repository holds, under the name of the class the        *)
(*            session tried to declare, a class that is its own ancestor;  *)
(*            state of the REPOSITORY: survives the end of the compile     *)
(*            call, whether it succeeded or failed                         *)
(*   lexoff = the line counter of the compiler's base lexer (self.lexer;   *)
(*            every compile_string and every nested compile starts from a  *)
(*            clone of it) is not 1 any more: a text was tokenized with    *)
(*            the base lexer itself.  State of the COMPILER OBJECT:        *)
(*            survives the end of the compile call.  A frame remembers in  *)
(*            `off` whether its lexer was cloned from a shifted base       *)
(*   erroff = the line of the error raised was counted from a shifted      *)
(*            start (it is not a line of the text the error stands in)     *)
(*                                                                         *)
(* A compile call pushes a frame; `#pragma include` (p_compilerDirective ->*)
(* compile_file -> compile_string) pushes another one; a normal return     *)
(* pops and restores parser.file; an exception unwinds everything WITHOUT  *)
(* restoring (compile_string restores only on success).  After the session *)
(* ("bad" phase) valid MOF is compiled on the same object ("good" phase).  *)
(*                                                                         *)
(* TLC runs this machine for EVERY session of SessionParts(MaxProd, OnlyKinds)*)
(* and checks                                                              *)
(*   ImplRefinesReq   the outcome is admissible for the requirement        *)
(*   PositionFileOK   an error names the file its production stands in     *)
(*   PositionLineOK   ... and a line counted from the start of that text   *)
(*   Reusable         the good phase succeeds and loses nothing            *)
(*   Termination      every compile call returns (PROPERTY, fair steps)    *)
(* With IncludeGuard = FALSE a self-including file recurses until the      *)
(* interpreter's recursion limit (MaxDepth): RecursionError, not admissible*)
(* = design-level counterexample.                                          *)
(*                                                                         *)
(* MofCompileMC.tla adds the export of the enumerated sessions (= the      *)
(* behaviours the harness replays on the real compiler).                   *)
(***************************************************************************)
EXTENDS MofCompileImplOps

CONSTANTS MaxProd, MaxDepth, OnlyKinds

VARIABLES ses, phase, stack, pfile, pmof, emb, nsw, cyc, out, errfile,
          errowner, lost, reg, nsinit, lcyc, lexoff, erroff
vars == <<ses, phase, stack, pfile, pmof, emb, nsw, cyc, out, errfile,
          errowner, lost, reg, nsinit, lcyc, lexoff, erroff>>

Parts == SessionParts(MaxProd, OnlyKinds)

GoodText == <<PlainOf("qualDecl"), PlainOf("class"), PlainOf("instance")>>
GoodFile == 9
EmbText == 50

\* part I: the later call compiles the defective production alone
ProdsOf(f) == IF f = 1 THEN ses.main ELSE IF f = 2 THEN ses.inc
              ELSE IF LaterError(ses) THEN ses.good
              ELSE GoodText \o ses.good

Frame(f, saved, savedmof, off) ==
  [f |-> f, pc |-> 1, saved |-> saved, savedmof |-> savedmof, off |-> off]

Init == /\ \E i \in DOMAIN Parts : ses \in Parts[i]
        /\ phase = "bad"
        /\ stack = <<Frame(1, 0, 0, FALSE)>>
        /\ pfile = 1 /\ pmof = 1
        /\ emb = FALSE /\ nsw = FALSE /\ lost = FALSE /\ cyc = FALSE
        /\ out = "" /\ errfile = 0 /\ errowner = 0
        /\ reg = FALSE /\ nsinit = TRUE /\ lcyc = FALSE
        /\ lexoff = FALSE /\ erroff = FALSE

Top == stack[Len(stack)]
OnStack(f) == \E i \in DOMAIN stack : stack[i].f = f
Bump == [stack EXCEPT ![Len(stack)].pc = @ + 1]

\* An error is built from the token's offset in the text being parsed and
\* from parser.mof (_find_column, _get_error_context index parser.mof with
\* that offset).  If parser.mof is another - shorter - text, indexing fails.
RaiseOuts(x) == IF x \in MOFErrors /\ pmof # Top.f THEN {x, "IndexError"}
                ELSE {x}
Raise(x, p) ==
  /\ out' \in RaiseOuts(x)
  /\ errfile' = pfile
  /\ errowner' = Top.f
  /\ stack' = << >>
  /\ emb' = IF EmbRuns(p) /\ ~EmbFinally THEN TRUE ELSE emb
  /\ reg' = (reg \/ (~RegisterAfterCreate /\ ReachesCreate(p)))
  \* the exception unwinds the compile, not the repository
  /\ lcyc' = (lcyc \/ LeavesCycle(p))
  \* the line of the error: counted by the lexer of the text it stands in
  \* (a clone made when the frame was pushed), for an error inside a nested
  \* text by the lexer of the nested compile
  /\ erroff' = IF EmbRuns(p) /\ p.d = "value"
               THEN (lexoff /\ ~EmbLexerClone) ELSE Top.off
  /\ UNCHANGED <<ses, phase, pfile, pmof, nsw, cyc, lost, nsinit, lexoff>>

Return ==
  /\ Top.pc > Len(ProdsOf(Top.f))
  /\ stack' = SubSeq(stack, 1, Len(stack) - 1)
  /\ pfile' = IF RestoreOnReturn THEN Top.saved ELSE pfile
  /\ pmof' = IF RestoreOnReturn THEN Top.savedmof ELSE pmof
  /\ out' = IF Len(stack) = 1 THEN "ok" ELSE out
  /\ UNCHANGED <<ses, phase, emb, nsw, cyc, errfile, errowner, lost, reg,
                 nsinit, lcyc, lexoff, erroff>>

IncludeTarget(p) ==
  IF p.v = "inc2" THEN 2 ELSE IF p.v = "mutual" THEN 1 ELSE Top.f

Step ==
  /\ Top.pc <= Len(ProdsOf(Top.f))
  /\ LET p == ProdsOf(Top.f)[Top.pc] IN
     IF p.k = "include" /\ ((p.d = "none" /\ p.v = "inc2") \/
                            (p.d = "dependency" /\ p.v \in {"self", "mutual"}))
     THEN LET g == IncludeTarget(p) IN
          \* the guard compares the key of the file with the keys of the
          \* files in progress; a spelled (non-canonical) path is a new key
          \* unless the keys are canonical paths
          IF IncludeGuard /\ OnStack(g) /\ (GuardCanonical \/ p.a = 0)
          THEN Raise("MOFParseError", p)
          ELSE IF Len(stack) >= MaxDepth THEN Raise("RecursionError", p)
          \* compile_file -> compile_string: lexer = self.lexer.clone()
          ELSE /\ stack' = Append(Bump, Frame(g, pfile, pmof, lexoff))
               /\ pfile' = g /\ pmof' = g
               /\ nsinit' = TRUE     \* compile_string(mof, target namespace)
               /\ UNCHANGED <<ses, phase, emb, nsw, cyc, out, errfile,
                              errowner, lost, reg, lcyc, lexoff, erroff>>
     ELSE \E r \in ImplProd(p, [nsw |-> nsw, emb |-> emb, cyc |-> cyc,
                                reg |-> reg, nsinit |-> nsinit,
                                lcyc |-> lcyc]) :
            IF r = "ok"
            THEN /\ stack' = Bump
                 /\ nsw' = (nsw \/ (p.k = "namespace" /\ p.d = "none"
                                    /\ p.v = "other"))
                 /\ emb' = IF EmbRuns(p) /\ ~EmbFinally THEN TRUE ELSE emb
                 \* an instance compiled while embedded_objects is a list is
                 \* appended to that list instead of being created
                 /\ lost' = (lost \/ (emb /\ p.k = "instance"))
                 \* compile_embedded_value: parser.mof := the value (each
                 \* element of a list in turn); restored afterwards
                 /\ pmof' = IF EmbList(p) /\ ~EmbRestoreAll THEN EmbText
                            ELSE pmof
                 /\ cyc' = CycAfter(p, cyc)
                 /\ lcyc' = (lcyc \/ LeavesCycle(p))
                 /\ nsinit' = IF p.k = "namespace" /\ p.d = "none"
                               THEN IF p.v \in {"other", "other_full"}
                                    THEN NsCachesInit
                                    ELSE IF p.v \in {"same", "leading_slash"}
                                    THEN TRUE ELSE nsinit
                               ELSE IF p.k \in {"class", "instance"}
                               THEN TRUE ELSE nsinit
                 \* a nested text tokenized with the base lexer itself
                 \* leaves its line ends there
                 /\ lexoff' = (lexoff \/ (EmbLines(p) /\ ~EmbLexerClone))
                 /\ UNCHANGED <<ses, phase, pfile, out, errfile, errowner,
                                reg, erroff>>
            ELSE Raise(r, p)

Running == phase \in {"bad", "good"} /\ out = "" /\ stack # << >>

StartGood ==
  /\ phase = "bad" /\ out # ""
  /\ phase' = "good"
  /\ stack' = <<Frame(GoodFile, pfile, pmof, lexoff)>>
  /\ pfile' = GoodFile /\ pmof' = GoodFile
  /\ nsw' = FALSE          \* compile_string sets target_namespace from ns
  /\ out' = "" /\ lost' = FALSE /\ cyc' = FALSE
  /\ nsinit' = TRUE
  /\ UNCHANGED <<ses, emb, errfile, errowner, reg, lcyc, lexoff, erroff>>

Finish == /\ phase = "good" /\ out # ""
          /\ phase' = "end"
          /\ UNCHANGED <<ses, stack, pfile, pmof, emb, nsw, cyc, out, errfile,
                         errowner, lost, reg, nsinit, lcyc, lexoff, erroff>>

Next == (Running /\ (Return \/ Step)) \/ StartGood \/ Finish
Spec == Init /\ [][Next]_vars /\ WF_vars(Next)

(* ---- properties ---------------------------------------------------------*)
TypeOK == /\ out \in {""} \cup AnyMof \cup
                     {"OSError", "AttributeError", "IndexError", "ValueError",
                      "TypeError", "CIMError", "RecursionError", "KeyError",
                      "OverflowError", "UnicodeEncodeError"}
          /\ Len(stack) <= MaxDepth

\* Total holds for every compile call: the session, and the later call on the
\* same object (which names no file that cannot be opened)
ImplRefinesReq ==
  /\ (phase = "bad" /\ out # "") => out \in Admissible(ses)
  /\ (phase \in {"good", "end"} /\ out # "") => out \in AnyMof
PositionFileOK == (out \in MOFErrors) => errfile = errowner
\* ... and a line counted from the start of the text it stands in
PositionLineOK == (out \in MOFErrors) => ~erroff
\* valid MOF afterwards compiles and loses nothing (part H: the later text
\* is not valid MOF, nothing is promised beyond Total; the same for part I)
Reusable == (phase \in {"good", "end"} /\ out # "" /\ ~LaterInvalid(ses))
            => (out = "ok" /\ ~lost)
Termination == <>(phase = "end")

=============================================================================
