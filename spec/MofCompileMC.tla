---------------------------- MODULE MofCompileMC ----------------------------
(***************************************************************************)
(* C09: model-checks MofCompileImpl over the whole session space and       *)
(* exports that space: every enumerated session goes (one JSON object per  *)
(* line) to IOEnv.SESS_FILE and the focus catalogue to IOEnv.FOCUS_FILE.   *)
(* The harness renders each session to MOF text and files and replays it   *)
(* on the real compiler; the catalogue feeds the seeded random driver.     *)
(***************************************************************************)
EXTENDS MofCompileImpl, Json, IOUtils, SequencesExt

RECURSIVE Concat(_, _)
Concat(parts, i) == IF i > Len(parts) THEN << >>
                    ELSE SetToSeq(parts[i]) \o Concat(parts, i + 1)

Sizes == [i \in DOMAIN Parts |-> Cardinality(Parts[i])]

ASSUME /\ ndJsonSerialize(IOEnv.SESS_FILE, Concat(Parts, 1))
       /\ ndJsonSerialize(IOEnv.FOCUS_FILE, SetToSeq(Focus))
       /\ PrintT(<<"EXPORT", Sizes, Cardinality(Focus)>>)
=============================================================================
