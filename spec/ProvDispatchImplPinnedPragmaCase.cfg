\* regression: pinned code, class names compared case-sensitively with the pragma file (must violate ImplRefinesReq)
SPECIFICATION Spec
CONSTANTS
  NsArgFormatBug = FALSE
  ClassnamesAssert = FALSE
  OutOnlyUnchecked = FALSE
  PragmaCaseSensitive = TRUE
  RecompileExisting = FALSE
  Variant = "none"
  Provs <- ProvsMeth
  NsArgs <- NsArgsSmall
  SetupBehs = {"ok", "raise"}
  Targets <- TargetsSmall
  KeyU = {1}
  GenDepth = 0
  MaxStore = 1
  IwLevel = "lite"
  MethLevel = "lite"
INVARIANT ImplRefinesReq
CONSTRAINT StoreBound
CHECK_DEADLOCK FALSE
