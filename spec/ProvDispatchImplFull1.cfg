\* thorough: 4 valid + 9 refused descriptors, every request shape, <= 1 instance
SPECIFICATION Spec
CONSTANTS
  NsArgFormatBug = FALSE
  ClassnamesAssert = FALSE
  OutOnlyUnchecked = FALSE
  PragmaCaseSensitive = FALSE
  RecompileExisting = FALSE
  Variant = "none"
  Provs <- ProvsSmall
  NsArgs <- NsArgsSmall
  SetupBehs = {"ok", "raise"}
  Targets <- TargetsSmall
  KeyU = {1}
  GenDepth = 0
  MaxStore = 1
  IwLevel = "full"
  MethLevel = "full"
INVARIANT ImplRefinesReq
INVARIANT MappingHolds
INVARIANT ReqWellFormed
CONSTRAINT StoreBound
CHECK_DEADLOCK FALSE
