CONSTANTS
  Big = TRUE
  GenKinds <- Kinds
