SPECIFICATION GenSpec
CONSTANTS
  PinnedRemove = FALSE
  PinnedIterTwice = FALSE
  PinnedSetSliceIter = FALSE
  PinnedPickleLow = FALSE
  LowerFold = FALSE
  ReverseKeepsShadow = FALSE
  CopyAliasShadow = FALSE
  InsertAppends = FALSE
  EszBase = 2
  NB = 3
  NV = 3
  MaxLen = 5
  MaxXs = 1
  MaxXsAlt = 1
  IdxU <- IdxBig
  GenDepth = 16
  GenMax = 3
INVARIANT ImplRefinesReq
INVARIANT MappingHolds
CONSTRAINT LenConstraint
CHECK_DEADLOCK FALSE
