\* behaviour emission (tlc -simulate): the whole call universe
SPECIFICATION SimSpec
CONSTANTS
  NsArgFormatBug = FALSE
  ClassnamesAssert = FALSE
  OutOnlyUnchecked = FALSE
  PragmaCaseSensitive = FALSE
  RecompileExisting = FALSE
  Variant = "none"
  Provs <- ProvsSim
  NsArgs <- NsArgsBig
  SetupBehs = {"ok", "raise"}
  Targets <- TargetsBig
  KeyU = {1, 2}
  GenDepth = 12
  MaxStore = 4
  IwLevel = "full"
  MethLevel = "full"
CONSTRAINT StoreBound
CONSTRAINT GenConstraint
CHECK_DEADLOCK FALSE
