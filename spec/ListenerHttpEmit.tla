-------------------------- MODULE ListenerHttpEmit --------------------------
(* prints the request classes with <=1 and exactly 2 deviations from the    *)
(* valid request (enumerated by TLC; the harness concretises each of them)  *)
EXTENDS ListenerHttp
ASSUME EmitClasses
=============================================================================
