-------------------------- MODULE ListenerHttpEmit --------------------------
(* prints the request classes with <=1 and exactly 2 deviations from the    *)
(* valid request (enumerated by TLC; the harness concretises each of them)  *)
(* and the lexeme classes (position, class) with everything else valid      *)
EXTENDS ListenerHttpLex
ASSUME EmitClasses
ASSUME EmitLex
=============================================================================
