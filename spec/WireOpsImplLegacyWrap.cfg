SPECIFICATION Spec
CONSTANTS
  K = 1
  Variant = {"wrap_host_first"}
  Emit = FALSE
INVARIANTS ImplValid ImplHeaders ImplReqOk
CHECK_DEADLOCK FALSE
