SPECIFICATION Spec
CONSTANTS
  CopyObject = TRUE
  TypeOrder = "cimtype_first"
  MaxLen = 3
INVARIANT EmitSwitch
CHECK_DEADLOCK FALSE
