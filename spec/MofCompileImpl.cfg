\* intended code shape, quick tier: all sessions of <= 2 productions per text; exports them
SPECIFICATION Spec
CONSTANTS
  MaxProd = 2
  MaxDepth = 6
  OnlyKinds = {"qualDecl", "class", "instance", "include", "namespace", "garbage"}
  IncludeGuard = TRUE
  NsNoneCheck = TRUE
  HexBounds = TRUE
  CtxBounds = TRUE
  ValueWrapped = TRUE
  RepoWrapped = TRUE
  EmbFinally = TRUE
  RestoreOnReturn = TRUE
INVARIANT TypeOK
INVARIANT ImplRefinesReq
INVARIANT PositionFileOK
INVARIANT Reusable
PROPERTY Termination
POSTCONDITION Export
CHECK_DEADLOCK FALSE
