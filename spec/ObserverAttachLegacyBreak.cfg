SPECIFICATION Spec
CONSTANTS
  SearchStopsAtFirstRecorder = TRUE
  ReprNeedsKeyFile = FALSE
  MaxPlan = 3
INVARIANT SwitchOnTotal
INVARIANT OneLogRecorder
INVARIANT LoggingOnWhenAsked
CHECK_DEADLOCK FALSE
