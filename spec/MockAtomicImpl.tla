--------------------------- MODULE MockAtomicImpl ---------------------------
(***************************************************************************)
(* Code-shaped model behind C11: every repository-changing call of the     *)
(* mock is a pipeline of CHECK steps (each can reject for one reason) and  *)
(* WRITE steps (each changes one repository item).  The tables below are   *)
(* transcribed from the order of statements in pywbem_mock                 *)
(* (_mainprovider.py, _providerdispatcher.py, _instancewriteprovider.py,   *)
(* _namespaceprovider.py, _wbemconnection_mock.py).  A call is atomic iff  *)
(* no check that can fail is executed after the first write - or the call  *)
(* restores a snapshot when it raises (batches with Rollback = TRUE).      *)
(*                                                                         *)
(* TLC explores every operation, from every repository state, under every  *)
(* scenario (= set of reasons that currently hold), step by step, and      *)
(* checks the requirement  raised => repository unchanged.                 *)
(*   Rollback = FALSE : code before the "fix:" commit (batches write       *)
(*                      through; must FAIL - regression configuration)     *)
(*   NsProviderOrder = "legacy": CIM_Namespace CreateInstance adds the     *)
(*                      namespace before the key check (must FAIL)         *)
(***************************************************************************)
EXTENDS Naturals, Sequences, FiniteSets, TLC

CONSTANTS Rollback, NsProviderOrder, MaxBatch,
          MultiNsPrecheck,   \* "all-first": existence checked in EVERY
                             \* namespace before the first write (the code);
                             \* "interleaved": each namespace checked right
                             \* before its own write
          RollbackKinds,     \* "all": any exception restores the repository
                             \* (the code: except Exception); "mof": only MOF /
                             \* CIM / Value / Type errors do - an I/O error of
                             \* an include does not
          SchemaListRollback \* TRUE: one snapshot around the loop over the
                             \* schema pragma files; FALSE: only each file's
                             \* own compile is rolled back

Ck(r) == [t |-> "check", r |-> r, i |-> 0]
Wr(i) == [t |-> "write", r |-> "", i |-> i]

(* items are small integers; writing item i toggles "version" of i in the  *)
(* repository map (so every write is observable)                           *)
Items == 1..4
Mod(a, b) == a - (a \div b) * b

(* batch of n productions: check_k ; write_k interleaved (write-through)   *)
BatchSteps(n) ==
  [j \in 1..(2 * n) |->
     IF Mod(j, 2) = 1 THEN Ck("prod" \o ToString((j + 1) \div 2))
     ELSE Wr(Mod((j \div 2) - 1, 4) + 1)]

(* the same batch, but the k-th production is an include whose file may    *)
(* be missing: an I/O error, not a MOF error                               *)
BatchIoSteps(n) ==
  [j \in 1..(2 * n) |->
     IF Mod(j, 2) = 1 THEN Ck("io" \o ToString((j + 1) \div 2))
     ELSE Wr(Mod((j \div 2) - 1, 4) + 1)]

(* compile_schema_classes over two schema pragma files: per file           *)
(* build_schema_mof (class listed in the file?) and a compile              *)
SchemaSteps == <<Ck("file1-lacks-class"), Ck("file1-mof"), Wr(1),
                 Ck("file2-lacks-class"), Ck("file2-mof"), Wr(2)>>

Table ==
  [CreateClass |-> <<Ck("ns"), Ck("exists"), Ck("superclass"), Ck("resolve"),
                     Wr(1)>>,
   ModifyClass |-> <<Ck("ns"), Ck("notfound"), Ck("superclass"),
                     Ck("resolve"), Ck("haschildren"), Ck("hasinstances"),
                     Wr(1)>>,
   DeleteClass |-> <<Ck("ns"), Ck("notfound"), Wr(3), Wr(2), Wr(1)>>,
   SetQualifier |-> <<Ck("ns"), Ck("invalid"), Wr(4)>>,
   DeleteQualifier |-> <<Ck("ns"), Ck("notfound"), Wr(4)>>,
   CreateInstance |-> <<Ck("ns"), Ck("class"), Ck("props"), Ck("key"),
                        Ck("exists"), Wr(2)>>,
   CreateInstanceMultiNs |->
       IF MultiNsPrecheck = "all-first"
       THEN <<Ck("ns"), Ck("class"), Ck("props"), Ck("endpoint"),
              Ck("class2"), Ck("key"), Ck("exists"), Ck("exists2"),
              Wr(2), Wr(3)>>
       ELSE <<Ck("ns"), Ck("class"), Ck("props"), Ck("endpoint"),
              Ck("class2"), Ck("key"), Ck("exists2"), Wr(3), Ck("exists"),
              Wr(2)>>,
   ModifyInstance |-> <<Ck("ns"), Ck("class"), Ck("notfound"), Ck("plist"),
                        Ck("props"), Ck("keychange"), Wr(2)>>,
   ModifyInstanceMultiNs |-> <<Ck("ns"), Ck("class"), Ck("notfound"),
                               Ck("props"), Ck("endpoint"), Ck("class2"),
                               Ck("notfound2"), Wr(2), Wr(3)>>,
   DeleteInstance |-> <<Ck("ns"), Ck("class"), Ck("notfound"), Wr(2)>>,
   DeleteInstanceMultiNs |-> <<Ck("ns"), Ck("class"), Ck("notfound"),
                               Ck("notfound2"), Wr(3), Wr(2)>>,
   add_namespace |-> <<Ck("exists"), Wr(4)>>,
   remove_namespace |-> <<Ck("notfound"), Ck("notempty"), Wr(4)>>,
   CreateNamespaceInstance |->
       IF NsProviderOrder = "legacy"
       THEN <<Ck("ns"), Ck("class"), Ck("props"), Ck("nameprop"), Wr(4),
              Ck("key"), Ck("exists"), Wr(2)>>
       ELSE <<Ck("ns"), Ck("class"), Ck("props"), Ck("nameprop"),
              Ck("key"), Ck("exists"), Wr(4), Wr(2)>>]

OpNames == DOMAIN Table
Steps(op) == IF op \in OpNames THEN Table[op]
             ELSE IF op = "batchio" THEN BatchIoSteps(MaxBatch)
             ELSE IF op = "schemalist" THEN SchemaSteps
             ELSE BatchSteps(MaxBatch)
AllOps == OpNames \cup {"batch", "batchio", "schemalist"}

(* does the failing check x of operation op restore the snapshot? *)
Restores(op, x, pc) ==
  CASE op = "batch" -> Rollback
    [] op = "batchio" -> Rollback /\ RollbackKinds = "all"
    [] op = "schemalist" ->
         \* each compile_mof_string restores what IT wrote (nothing yet at a
         \* check); only the outer snapshot undoes the earlier files
         Rollback /\ (SchemaListRollback \/ pc <= 3)
    [] OTHER -> FALSE
Reasons(op) == {Steps(op)[j].r : j \in {x \in DOMAIN Steps(op) :
                                         Steps(op)[x].t = "check"}}

VARIABLES repo,      \* item -> version
          call       \* [op, scen, pc, snap, raised, done] or idle marker
vars == <<repo, call>>

Idle == [op |-> "", scen |-> {}, pc |-> 0, snap |-> << >>, raised |-> FALSE,
         done |-> TRUE]

Init == repo = [i \in Items |-> 0] /\ call = Idle

Start == /\ call.done
         /\ \E op \in AllOps :
              \* at most one reason holds (single fault) or two (double fault)
              \E scen \in {S \in SUBSET Reasons(op) : Cardinality(S) <= 2} :
                 call' = [op |-> op, scen |-> scen, pc |-> 1, snap |-> repo,
                          raised |-> FALSE, done |-> FALSE]
         /\ UNCHANGED repo

Step == /\ ~call.done
        /\ LET st == Steps(call.op) IN
           IF call.pc > Len(st)
           THEN call' = [call EXCEPT !.done = TRUE] /\ UNCHANGED repo
           ELSE LET x == st[call.pc] IN
                IF x.t = "check"
                THEN IF x.r \in call.scen
                     THEN \* the call raises here
                          /\ call' = [call EXCEPT !.raised = TRUE, !.done = TRUE]
                          /\ repo' = IF Restores(call.op, x, call.pc)
                                     THEN call.snap ELSE repo
                     ELSE call' = [call EXCEPT !.pc = @ + 1] /\ UNCHANGED repo
                ELSE /\ repo' = [repo EXCEPT ![x.i] = Mod(@ + 1, 3)]
                     /\ call' = [call EXCEPT !.pc = @ + 1]

Next == Start \/ Step
Spec == Init /\ [][Next]_vars

(* C11 *)
Atomic == (call.done /\ call.raised) => repo = call.snap
(* sanity: a call without any holding reason completes all its writes      *)
Completes == (call.done /\ ~call.raised /\ call.op # "") =>
                (call.scen = {} /\ call.pc > Len(Steps(call.op)))
=============================================================================
