--------------------------- MODULE MockAtomicImpl ---------------------------
(***************************************************************************)
(* Code-shaped model behind C11: every repository-changing call of the     *)
(* mock is a pipeline of CHECK steps (each can reject for one reason) and  *)
(* WRITE steps (each changes one repository item).  The tables below are   *)
(* transcribed from the order of statements in pywbem_mock                 *)
(* (_mainprovider.py, _providerdispatcher.py, _instancewriteprovider.py,   *)
(* _namespaceprovider.py, _wbemconnection_mock.py).  A call is atomic iff  *)
(* no check that can fail is executed after the first write - or the call  *)
(* restores a snapshot when it raises (batches with Rollback = TRUE).      *)
(*                                                                         *)
(* TLC explores every operation, from every repository state, under every  *)
(* scenario (= set of reasons that currently hold), step by step, and      *)
(* checks the requirement  raised => repository unchanged.                 *)
(*   Rollback = FALSE : code before the "fix:" commit (batches write       *)
(*                      through; must FAIL - regression configuration)     *)
(*   NsProviderOrder = "legacy": CIM_Namespace CreateInstance adds the     *)
(*                      namespace before the key check and never removes   *)
(*                      it again (must FAIL)                               *)
(*   NsProviderOrder = "keys-first": the key check is moved in front of    *)
(*                      the write instead of the cleanup; the duplicate    *)
(*                      check of the default provider still comes after    *)
(*                      the namespace was added (must FAIL in the state    *)
(*                      "instance exists, namespace does not")            *)
(*   DeleteClassUndo = FALSE: DeleteClass does not restore the instances   *)
(*                      deleted before the one its provider rejects (must  *)
(*                      FAIL; the code before its repair 61ef456)          *)
(*   DeleteClassInstances = "per-class": DeleteClass enumerates the        *)
(*                      instances to delete per class of its loop, so the  *)
(*                      snapshot is taken only when the loop reaches the   *)
(*                      first class that HAS instances - after the         *)
(*                      instance-less subclasses were deleted (must FAIL)  *)
(*   NsAlias = "lexical": the namespaces of the references of an           *)
(*                      association are de-duplicated as strings, so two   *)
(*                      spellings of the same other namespace are written  *)
(*                      twice; the second write finds the first (must FAIL)*)
(*   MultiNsDelete = "interleaved": DeleteInstance of a multi-namespace    *)
(*                      association deletes namespace by namespace and     *)
(*                      notices a missing copy only when it gets there     *)
(*                      (must FAIL with three namespaces; this is the code *)
(*                      today, see known findings)                         *)
(*   RollbackScope = "target-namespace": the batch snapshot covers only    *)
(*                      the namespace the call was made for (must FAIL for *)
(*                      productions that write outside it)                 *)
(***************************************************************************)
EXTENDS Naturals, Sequences, FiniteSets, TLC

CONSTANTS Rollback, NsProviderOrder, MaxBatch,
          MultiNsPrecheck,   \* "all-first": existence checked in EVERY
                             \* namespace before the first write (the code);
                             \* "interleaved": each namespace checked right
                             \* before its own write
          RollbackKinds,     \* "all": any exception restores the repository
                             \* (the code: except Exception); "mof": only MOF /
                             \* CIM / Value / Type errors do - an I/O error of
                             \* an include does not
          SchemaListRollback,\* TRUE: one snapshot around the loop over the
                             \* schema pragma files; FALSE: only each file's
                             \* own compile is rolled back
          DeleteClassUndo,   \* DeleteClass deletes the instances of the class
                             \* through their providers, one by one; a
                             \* provider may reject one of them (namespace
                             \* provider: namespace not empty / the Interop
                             \* namespace).  TRUE: the instances deleted
                             \* before the rejected one are restored (the
                             \* code since 61ef456: snapshot + restore);
                             \* FALSE: they stay deleted
          DeleteClassInstances, \* "subtree-first": the instances of the whole
                             \* subtree are enumerated (and the snapshot is
                             \* taken) in the first iteration of the loop
                             \* over the classes, before any class is deleted
                             \* (the code); "per-class": each iteration
                             \* enumerates the instances of its own class, the
                             \* snapshot is taken at the first class that has
                             \* instances - instance-less subclasses are
                             \* already gone by then
          NsAlias,           \* "nocase": two references that spell the same
                             \* other namespace differently (namespace names
                             \* are case insensitive) count as ONE namespace
                             \* (the code); "lexical": as two - the copy is
                             \* written for the first spelling and found by
                             \* the second
          MultiNsDelete,     \* DeleteInstance of an association that spans
                             \* several namespaces: "all-first" = existence
                             \* of every copy checked before the first delete
                             \* (the repair); "interleaved" = each namespace
                             \* checked when it is its turn (the code today -
                             \* known finding for three namespaces)
          RollbackScope      \* "repository": the snapshot of a batch is the
                             \* complete repository (the code: deepcopy of
                             \* conn.cimrepository); "target-namespace": only
                             \* the namespace given to the call

Ck(r) == [t |-> "check", r |-> r, i |-> 0]
Wr(i) == [t |-> "write", r |-> "", i |-> i]

(* items are small integers; writing item i toggles the "version" bit of   *)
(* i in the repository map; no pipeline writes an item twice (ASSUME       *)
(* below), so every write is observable                                    *)
(* 1..4 live in the target namespace of the call (4 doubles as "a          *)
(* namespace" for add/remove_namespace and the namespace provider);        *)
(* 5 = an object in ANOTHER existing namespace, 6 = another namespace      *)
(* itself - both can be written by a MOF batch although the call names     *)
(* one target namespace: `#pragma namespace`, the shadow copy of a         *)
(* cross-namespace association instance, an `instance of CIM_Namespace`    *)
(* handled by the namespace provider                                       *)
TargetItems == 1..4
Items == 1..6
Mod(a, b) == a - (a \div b) * b

(* batch of n productions: check_k ; write_k interleaved (write-through)   *)
BatchSteps(n) ==
  [j \in 1..(2 * n) |->
     IF Mod(j, 2) = 1 THEN Ck("prod" \o ToString((j + 1) \div 2))
     ELSE Wr(Mod((j \div 2) - 1, 4) + 1)]

(* the same batch, but the k-th production is an include whose file may    *)
(* be missing: an I/O error, not a MOF error                               *)
BatchIoSteps(n) ==
  [j \in 1..(2 * n) |->
     IF Mod(j, 2) = 1 THEN Ck("io" \o ToString((j + 1) \div 2))
     ELSE Wr(Mod((j \div 2) - 1, 4) + 1)]

(* a batch whose productions write OUTSIDE the target namespace before    *)
(* (and after) the invalid one: production 1 writes an object into another *)
(* existing namespace, production 2 creates a namespace, the others write  *)
(* into the target namespace                                               *)
BatchNsSteps(n) ==
  [j \in 1..(2 * n) |->
     IF Mod(j, 2) = 1 THEN Ck("prod" \o ToString((j + 1) \div 2))
     ELSE IF j = 2 THEN Wr(5) ELSE IF j = 4 THEN Wr(6)
     ELSE Wr(Mod((j \div 2) - 3, 4) + 1)]

(* compile_schema_classes over two schema pragma files: per file           *)
(* build_schema_mof (class listed in the file?) and a compile              *)
SchemaSteps == <<Ck("file1-lacks-class"), Ck("file1-mof"), Wr(1),
                 Ck("file2-lacks-class"), Ck("file2-mof"), Wr(2)>>

Table ==
  [CreateClass |-> <<Ck("ns"), Ck("exists"), Ck("superclass"), Ck("resolve"),
                     Wr(1)>>,
   ModifyClass |-> <<Ck("ns"), Ck("notfound"), Ck("superclass"),
                     Ck("resolve"), Ck("haschildren"), Ck("hasinstances"),
                     Wr(1)>>,
   DeleteClass |-> <<Ck("ns"), Ck("notfound"), Wr(3), Wr(2), Wr(1)>>,
   \* the instances of the class are served by a provider that can reject
   \* the deletion of each of them (items 3, 4 = a CIM_Namespace instance
   \* and its namespace; 2 = a second instance; 1 = the class)
   DeleteClassProvider |-> <<Ck("ns"), Ck("notfound"), Ck("inst1-rejected"),
                             Wr(3), Wr(4), Ck("inst2-rejected"), Wr(2),
                             Wr(1)>>,
   \* the class has an instance-less subclass (3); its instance (2) is
   \* served by a provider that may reject the deletion; 1 = the class.
   \* MainProvider.DeleteClass loops over subclasses, then the class.
   DeleteClassSubtree |->
       IF DeleteClassInstances = "subtree-first"
       THEN <<Ck("ns"), Ck("notfound"), Ck("inst1-rejected"), Wr(2), Wr(3),
              Wr(1)>>
       ELSE <<Ck("ns"), Ck("notfound"), Wr(3), Ck("inst1-rejected"), Wr(2),
              Wr(1)>>,
   SetQualifier |-> <<Ck("ns"), Ck("invalid"), Wr(4)>>,
   DeleteQualifier |-> <<Ck("ns"), Ck("notfound"), Wr(4)>>,
   CreateInstance |-> <<Ck("ns"), Ck("class"), Ck("props"), Ck("key"),
                        Ck("exists"), Wr(2)>>,
   CreateInstanceMultiNs |->
       IF MultiNsPrecheck = "all-first"
       THEN <<Ck("ns"), Ck("class"), Ck("props"), Ck("endpoint"),
              Ck("class2"), Ck("key"), Ck("exists"), Ck("exists2"),
              Wr(2), Wr(3)>>
       ELSE <<Ck("ns"), Ck("class"), Ck("props"), Ck("endpoint"),
              Ck("class2"), Ck("key"), Ck("exists2"), Wr(3), Ck("exists"),
              Wr(2)>>,
   \* both references point into the same OTHER namespace, spelled in two
   \* ways ("alias" holds): one copy there (3) and one in the target (2)
   CreateInstanceMultiNsAlias |->
       IF NsAlias = "nocase"
       THEN <<Ck("ns"), Ck("class"), Ck("props"), Ck("endpoint"),
              Ck("class2"), Ck("key"), Ck("exists"), Ck("exists2"),
              Wr(3), Wr(2)>>
       ELSE <<Ck("ns"), Ck("class"), Ck("props"), Ck("endpoint"),
              Ck("class2"), Ck("key"), Ck("exists"), Ck("exists2"),
              Wr(3), Ck("alias"), Wr(2)>>,
   ModifyInstance |-> <<Ck("ns"), Ck("class"), Ck("notfound"), Ck("plist"),
                        Ck("props"), Ck("keychange"), Wr(2)>>,
   ModifyInstanceMultiNs |-> <<Ck("ns"), Ck("class"), Ck("notfound"),
                               Ck("props"), Ck("endpoint"), Ck("class2"),
                               Ck("notfound2"), Wr(2), Wr(3)>>,
   DeleteInstance |-> <<Ck("ns"), Ck("class"), Ck("notfound"), Wr(2)>>,
   DeleteInstanceMultiNs |-> <<Ck("ns"), Ck("class"), Ck("notfound"),
                               Ck("notfound2"), Wr(3), Wr(2)>>,
   \* an association spanning THREE namespaces: copies 3, 4 in the other
   \* two namespaces (in the order of the references), 2 in the target
   DeleteInstanceMultiNs3 |->
       IF MultiNsDelete = "all-first"
       THEN <<Ck("ns"), Ck("class"), Ck("notfound"), Ck("notfound2"),
              Ck("notfound3"), Wr(3), Wr(4), Wr(2)>>
       ELSE <<Ck("ns"), Ck("class"), Ck("notfound"), Ck("notfound2"), Wr(3),
              Ck("notfound3"), Wr(4), Wr(2)>>,
   ModifyInstanceMultiNs3 |-> <<Ck("ns"), Ck("class"), Ck("notfound"),
                                Ck("props"), Ck("endpoint"), Ck("class2"),
                                Ck("class3"), Ck("notfound2"),
                                Ck("notfound3"), Wr(3), Wr(4), Wr(2)>>,
   add_namespace |-> <<Ck("exists"), Wr(4)>>,
   remove_namespace |-> <<Ck("notfound"), Ck("notempty"), Wr(4)>>,
   \* CreateInstance of CIM_Namespace: the dispatcher's checks (namespace,
   \* creation class, properties), then CIMNamespaceProvider.CreateInstance:
   \* its own checks (Interop namespace, Name/CreationClassName present
   \* and matching, namespace already represented by an instance, second
   \* Interop namespace), add the namespace, then the default provider's
   \* CreateInstance (path from the keys, duplicate check) and its write.
   \* The code ("fixed") removes the added namespace again when the
   \* default provider raises (Undo below).  The duplicate check can only
   \* fire in the state "CIM_Namespace instance exists, its namespace does
   \* not" (otherwise "nsinst" fires first).
   CreateNamespaceInstance |->
       IF NsProviderOrder = "keys-first"
       THEN <<Ck("ns"), Ck("class"), Ck("props"), Ck("interop"),
              Ck("nameprop"), Ck("ccn"), Ck("key"), Ck("nsinst"),
              Ck("interop2"), Wr(4), Ck("exists"), Wr(2)>>
       ELSE <<Ck("ns"), Ck("class"), Ck("props"), Ck("interop"),
              Ck("nameprop"), Ck("ccn"), Ck("nsinst"), Ck("interop2"),
              Wr(4), Ck("key"), Ck("exists"), Wr(2)>>]

OpNames == DOMAIN Table
Steps(op) == IF op \in OpNames THEN Table[op]
             ELSE IF op = "batchio" THEN BatchIoSteps(MaxBatch)
             ELSE IF op = "schemalist" THEN SchemaSteps
             ELSE IF op = "batchns" THEN BatchNsSteps(MaxBatch)
             ELSE BatchSteps(MaxBatch)
AllOps == OpNames \cup {"batch", "batchio", "schemalist", "batchns"}

(* which items does operation op put back to their snapshot value when   *)
(* its check x at position pc fails?                                       *)
Scope == IF RollbackScope = "repository" THEN Items ELSE TargetItems
Undo(op, x, pc) ==
  CASE op \in {"batch", "batchns"} -> IF Rollback THEN Scope ELSE {}
    [] op = "batchio" -> IF Rollback /\ RollbackKinds = "all" THEN Scope
                         ELSE {}
    [] op = "schemalist" ->
         \* each compile_mof_string restores what IT wrote (nothing yet at a
         \* check); only the outer snapshot undoes the earlier files
         IF Rollback /\ (SchemaListRollback \/ pc <= 3) THEN Scope ELSE {}
    [] op = "DeleteClassProvider" -> IF DeleteClassUndo THEN Items ELSE {}
    [] op = "DeleteClassSubtree" ->
         \* the snapshot holds what was there when it was taken: with
         \* "per-class" the instance-less subclass (3) is already deleted
         IF ~DeleteClassUndo THEN {}
         ELSE IF DeleteClassInstances = "subtree-first" THEN Items
         ELSE Items \ {3}
    [] op = "CreateNamespaceInstance" ->
         \* except Exception: if namespace_added: remove_namespace(...)
         IF NsProviderOrder = "fixed" THEN {4} ELSE {}
    [] OTHER -> {}
WriteItems(op) == LET st == Steps(op) IN
                  [j \in {x \in DOMAIN st : st[x].t = "write"} |-> st[j].i]
ASSUME \A op \in AllOps : \A a, b \in DOMAIN WriteItems(op) :
          a # b => WriteItems(op)[a] # WriteItems(op)[b]
Reasons(op) == {Steps(op)[j].r : j \in {x \in DOMAIN Steps(op) :
                                         Steps(op)[x].t = "check"}}

VARIABLES repo,      \* item -> version
          call       \* [op, scen, pc, snap, raised, done] or idle marker
vars == <<repo, call>>

Idle == [op |-> "", scen |-> {}, pc |-> 0, snap |-> << >>, raised |-> FALSE,
         done |-> TRUE]

Init == repo = [i \in Items |-> 0] /\ call = Idle

Start == /\ call.done
         /\ \E op \in AllOps :
              \* at most one reason holds (single fault) or two (double fault)
              \E scen \in {S \in SUBSET Reasons(op) : Cardinality(S) <= 2} :
                 call' = [op |-> op, scen |-> scen, pc |-> 1, snap |-> repo,
                          raised |-> FALSE, done |-> FALSE]
         /\ UNCHANGED repo

Step == /\ ~call.done
        /\ LET st == Steps(call.op) IN
           IF call.pc > Len(st)
           THEN call' = [call EXCEPT !.done = TRUE] /\ UNCHANGED repo
           ELSE LET x == st[call.pc] IN
                IF x.t = "check"
                THEN IF x.r \in call.scen
                     THEN \* the call raises here
                          /\ call' = [call EXCEPT !.raised = TRUE, !.done = TRUE]
                          /\ repo' = [i \in Items |->
                                        IF i \in Undo(call.op, x, call.pc)
                                        THEN call.snap[i] ELSE repo[i]]
                     ELSE call' = [call EXCEPT !.pc = @ + 1] /\ UNCHANGED repo
                ELSE /\ repo' = [repo EXCEPT ![x.i] = 1 - @]
                     /\ call' = [call EXCEPT !.pc = @ + 1]

Next == Start \/ Step
Spec == Init /\ [][Next]_vars

(* C11 *)
Atomic == (call.done /\ call.raised) => repo = call.snap
(* sanity: a call without any holding reason completes all its writes      *)
Completes == (call.done /\ ~call.raised /\ call.op # "") =>
                (call.scen = {} /\ call.pc > Len(Steps(call.op)))
=============================================================================
