---------------------------- MODULE AssocImplOps ----------------------------
(***************************************************************************)
(* Pure operators of the code-shaped machine of the mock's association     *)
(* traversal (pywbem_mock/_mainprovider.py), transcribed branch by branch: *)
(*                                                                         *)
(*   _get_reference_instnames(ns, x, result_class, role)                   *)
(*       scan the instance store OF THE SOURCE'S NAMESPACE; per instance   *)
(*       scan the reference properties in declaration order; a property    *)
(*       whose value equals x is tested against result_class and role; a   *)
(*       mismatch `continue`s with the next property                       *)
(*   _get_associated_instancenames(ns, x, assoc_class, result_class,       *)
(*                                 result_role, role)                      *)
(*       phase 1 = _get_reference_instnames(ns, x, assoc_class, role);     *)
(*       phase 2 = for every referencing instance every OTHER reference    *)
(*       property (value # x) passing result_class / result_role           *)
(*   the provider methods AssociatorNames / Associators / ReferenceNames / *)
(*   References (argument order ..., ResultRole, Role) and the filter      *)
(*   class existence checks (CIM_ERR_INVALID_PARAMETER)                    *)
(*                                                                         *)
(* Regression switches (realistic wrong variants, must be detected):       *)
(*   LegacyBreak  role mismatch of the first matching end `break`s the     *)
(*                property scan instead of `continue`                      *)
(*   SwapIn       operation ("AN", "A", "" = none) that passes Role and    *)
(*                ResultRole in the wrong order                            *)
(*   ShallowSub   _subclasses_lc collects the DIRECT subclasses only       *)
(*   IgnoreNs     a stored reference is matched against the source by      *)
(*                class and key values only (namespace ignored)            *)
(***************************************************************************)
EXTENDS Assoc

CONSTANTS LegacyBreak, SwapIn, ShallowSub, IgnoreNs

(* SubCacheNs: 0 = the code: _subclasses_lc() computes the subclass list    *)
(* from the class store of the namespace of the request.  n > 0 = a        *)
(* realistic memo cache keyed by the class name WITHOUT the namespace, as  *)
(* it behaves once namespace n was asked first: every namespace gets the   *)
(* subclass list of namespace n's hierarchy.  Declared as an operator so   *)
(* that configurations need not set it.                                    *)
SubCacheNs == 0

IOk(S) == [k |-> "ok", S |-> S]
IErr4 == [k |-> "err4", S |-> {}]
IErr6 == [k |-> "err6", S |-> {}]
IExc == [k |-> "exc:AttributeError", S |-> {}]

(* _subclasses_lc(classname): the class and its subclasses                 *)
(* (_get_subclass_names(..., deep=True))                                   *)
ImplSubtree(c) ==
  IF ShallowSub THEN {d \in Classes : d = c \/ Parent(d) = c}
  ELSE Subtree(c)

(* class filter on a stored copy (instance of a class of ITS namespace):    *)
(* inst.classname.lower() in _subclasses_lc(filter, class store of ns)      *)
ImplCopyClassOk(G, a, f) ==
  LET xp == IF a.cls # "ABX" THEN ""
            ELSE IF SubCacheNs = 0 THEN a.xp ELSE G.xpar[SubCacheNs] IN
  \/ a.cls \in ImplSubtree(f)
  \/ a.cls = "ABX" /\ xp # "" /\ xp \in ImplSubtree(f)
     /\ ~ShallowSub
  \/ a.cls = "ABX" /\ xp = f /\ ShallowSub

(* `prop.value == instname`: CIMInstanceName equality = namespace, class   *)
(* and key values (host: both None here); v, x = node indexes              *)
SameObject(G, v, x) ==
  IF IgnoreNs
  THEN v # 0 /\ G.nodes[v].cls = G.nodes[x].cls /\ G.nodes[v].kid = G.nodes[x].kid
  ELSE v = x

RECURSIVE ScanRef(_, _, _, _, _, _)
ScanRef(G, a, x, rc, ro, i) ==
  IF i > Len(a.ends) THEN FALSE
  ELSE IF SameObject(G, a.ends[i], x)
       THEN IF rc # "" /\ ~ImplCopyClassOk(G, a, rc)
            THEN ScanRef(G, a, x, rc, ro, i + 1)            \* continue
            ELSE IF ro # "" /\ Roles(a.cls)[i] # ro
                 THEN IF LegacyBreak THEN FALSE              \* break
                      ELSE ScanRef(G, a, x, rc, ro, i + 1)  \* continue
                 ELSE TRUE                                   \* add(inst.path)
       ELSE ScanRef(G, a, x, rc, ro, i + 1)

(* indexes of the stored copies found by _get_reference_instnames (what it *)
(* returns is inst.path of each: see PathIdx)                              *)
ImplRefPaths(G, x, rc, ro) ==
  {j \in DOMAIN G.assocs :
      G.assocs[j].ns = G.nodes[x].ns /\ ScanRef(G, G.assocs[j], x, rc, ro, 1)}

(* the stored copy that the path of copy j (namespace pns) names; 0 = none *)
PathIdx(G, j) ==
  LET S == {k \in DOMAIN G.assocs :
              G.assocs[k].ns = G.assocs[j].pns /\ G.assocs[k].g = G.assocs[j].g}
  IN IF S = {} THEN 0 ELSE CHOOSE k \in S : TRUE
(* _get_bare_instance / _get_instance look inst.path up in the store of    *)
(* the SOURCE's namespace                                                  *)
PathsInStore(G, x, refs) ==
  \A j \in refs : G.assocs[j].pns = G.nodes[x].ns

(* phase 2 on one referencing instance *)
ScanAssoc(G, a, x, rc, rr) ==
  {a.ends[q] : q \in {q \in DOMAIN a.ends :
      /\ a.ends[q] # 0              \* absent property: not in inst.properties
      /\ a.ends[q] # x
      /\ (rc = "" \/ G.nodes[a.ends[q]].cls \in ImplSubtree(rc))
      /\ (rr = "" \/ Roles(a.cls)[q] = rr)}}

BadFilterClass(ac, rc) ==
  (ac # "" /\ ac \notin Classes) \/ (rc # "" /\ rc \notin Classes)
(* _validate_class_exists(namespace of the source, filter class)           *)
BadFilterClassAt(G, x, ac, rc) ==
  BadFilterClass(ac, rc) \/ XAbsent(G, x, ac) \/ XAbsent(G, x, rc)

(* phase 2 over the referencing instances found by phase 1 *)
ImplPhase2(G, x, rc, rr, refs) ==
  UNION {ScanAssoc(G, G.assocs[j], x, rc, rr) : j \in refs}

ImplAssocNames(G, x, ac, rc, rr, ro) ==     \* note the code's argument order
  IF BadFilterClassAt(G, x, ac, rc) THEN IErr4
  ELSE LET refs == ImplRefPaths(G, x, ac, ro) IN
       IF ~PathsInStore(G, x, refs) THEN IExc   \* None.properties
       ELSE IOk(ImplPhase2(G, x, rc, rr, refs))

(* provider methods; result S = node indexes *)
ImplAssocOp(op, G, x, ac, rc, ro, rr) ==
  IF SwapIn = op THEN ImplAssocNames(G, x, ac, rc, ro, rr)
  ELSE ImplAssocNames(G, x, ac, rc, rr, ro)

(* ReferenceNames ("AN": the paths) / References ("A": the instances got  *)
(* by path from the store of the source's namespace); S = assocs indexes  *)
ImplRefOpOn(op, G, x, rc, refs) ==     \* refs = ImplRefPaths(G, x, rc, ro)
  IF (rc # "" /\ rc \notin Classes) \/ XAbsent(G, x, rc) THEN IErr4
  ELSE IF op = "AN" THEN IOk({PathIdx(G, j) : j \in refs})
  ELSE IF ~PathsInStore(G, x, refs) THEN IErr6
  ELSE IOk(refs)
ImplRefOp(op, G, x, rc, ro) ==
  ImplRefOpOn(op, G, x, rc, ImplRefPaths(G, x, rc, ro))

(*------------------------- class level -----------------------------------*)
(* _get_reference_classnames / _get_associated_classnames over the fixed   *)
(* schema (class names compared as the code does; the source class is      *)
(* given in its repository spelling iff `exact`)                           *)
Superclasses(c) == {f \in Classes : f # c /\ Descends(c, f)}
RefProps(c) == {<<Roles(c)[i], RefClass(c)[i]>> : i \in DOMAIN Roles(c)}

ImplRefClassnames(c, rc, ro) ==
  IF rc # "" /\ rc \notin Classes THEN IErr4
  ELSE IOk({ac \in AssocClasses \ {"ABX"} :    \* class level: fixed schema
              \E p \in RefProps(ac) :
                 /\ p[2] \in ({c} \cup Superclasses(c))
                 /\ (rc = "" \/ ac \in ImplSubtree(rc))
                 /\ (ro = "" \/ p[1] = ro)})

ImplAssocClassnames(c, exact, ac, rc, rr, ro) ==
  IF (ac # "" /\ ac \notin Classes) \/ (rc # "" /\ rc \notin Classes)
  THEN IErr4
  ELSE LET refs == ImplRefClassnames(c, ac, ro) IN
       IF refs.k # "ok" THEN refs
       ELSE IOk(UNION {
              {p[2] : p \in {p \in RefProps(cl) :
                  /\ (ac = "" \/ cl \in ImplSubtree(ac))
                  /\ (rc = "" \/ p[2] \in ImplSubtree(rc))
                  /\ (rr = "" \/ p[1] = rr)
                  \* the source end is skipped when its class is used once
                  \* (`prop.reference_class == classname`: exact spelling)
                  /\ ~(exact /\ p[2] = c /\
                       Cardinality({q \in RefProps(cl) : q[2] = p[2]}) = 1)}}
              : cl \in refs.S})

ImplClassAssocOp(op, c, exact, ac, rc, ro, rr) ==
  IF SwapIn = op THEN ImplAssocClassnames(c, exact, ac, rc, ro, rr)
  ELSE ImplAssocClassnames(c, exact, ac, rc, rr, ro)
=============================================================================
