SPECIFICATION Spec
CONSTANTS
  MockVerifiesOpen = TRUE
  PrettyNoneWithoutDebug = TRUE
  SuspendedMinZero = TRUE
  LenInBytes = TRUE
  SnapshotShallow = FALSE
  SuspendNotSticky = FALSE
  CopySharesStatistics = FALSE
  LastReplyNotReset = FALSE
  StopOnlyOnSuccess = FALSE
  Mode = "http"
  En0 = {TRUE}
  Names = {"EnumerateInstanceNames"}
  Fam = {"op", "close", "with", "copy", "peek"}
  OpShapes <- OpsHttpLife
  MaxConn = 3
  MaxSteps = 8
  GenDepth = 0
  Advs = {0, 2}
  Lens <- LensSmall
  Srvs <- SrvsSmall
  MaxSnap = 1
INVARIANT ImplRefinesReq
INVARIANT ReqWellFormed
INVARIANT MappingHolds
CHECK_DEADLOCK FALSE
