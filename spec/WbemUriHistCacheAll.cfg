SPECIFICATION Spec
CONSTANTS
  V <- VCacheAll
  MaxLen = 3
  HistFmts = {"standard"}
  PrintFmts = {"standard", "historical", "canonical"}
  ObsSeq <- ObsNone
INVARIANT HistRoundTrip
INVARIANT HistIndependent
INVARIANT HistWellFormed
CHECK_DEADLOCK FALSE
