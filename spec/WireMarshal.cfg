SPECIFICATION Spec
CONSTANTS
  DropNone = TRUE
  ObjNsIgnored = FALSE
INVARIANT ServerSawWhatCallerSupplied
CHECK_DEADLOCK FALSE
