------------------------------- MODULE SubMgr -------------------------------
(***************************************************************************)
(* C18 - requirement machine for pywbem.WBEMSubscriptionManager (event     *)
(* style).  The abstract state is the TRUTH about who created what:        *)
(*   srv[sv].d / .f : set of [name, creator]   destinations / filters      *)
(*   srv[sv].s      : set of [f, d, creator]   subscriptions (by names)    *)
(*   creator = the subscription manager ID for owned instances,            *)
(*             "" for permanent, static and foreign ones                   *)
(*   reg            : set of <<manager object, server>> registrations      *)
(*   mid            : manager object -> its ID string                      *)
(* Ownership is "what a manager with this ID created as owned" - equality  *)
(* of ID strings, nothing else.                                            *)
(*                                                                         *)
(* Every event carries the call, its outcome and an observation taken      *)
(* afterwards: the complete interop content of every server (read directly *)
(* from the server, not through a manager) and get_owned_* of every        *)
(* registered manager.                                                     *)
(*                                                                         *)
(* Round 3 additions (value classes of the inputs and client behaviour):   *)
(*  * e.pform \in {"plain","host"}: the instance path given to remove_* is *)
(*    the path as the manager returned it, or the same path in the form the *)
(*    server returns it from the *Names operations (with a host).  The      *)
(*    requirement does not mention pform: both forms name the same server   *)
(*    instance and must have the same effect.                              *)
(*  * e.xcls \in {"plain","colon"}: class of the destination / filter ID of *)
(*    an owned add.  An ID with ':' is either refused (ValueError, nothing  *)
(*    created) or accepted and then owned like any other one.              *)
(*  * client_mutate: the client changes a LIST the manager handed out       *)
(*    (get_owned_* / get_all_*: clear, pop, extend with another list, ...). *)
(*    Not a manager call: the truth and therefore every owned list stay.    *)
(*  * iter_begin / iter_end: the client idiom                              *)
(*      for inst in mgr.get_owned_X(sid): mgr.remove_X(sid, inst.path)      *)
(*    iter_begin fixes the set of instances listed (= owned) at that time;  *)
(*    the removals are ordinary remove_* events; iter_end carries the names *)
(*    the loop body was given: all of the listed ones, whatever the manager *)
(*    did to its bookkeeping in between.                                   *)
(*                                                                         *)
(* Round 4 additions:                                                      *)
(*  * e.xcls = "empty": the owned destination / filter ID is the empty      *)
(*    string (a legal ID: printable text without ':').  The requirement does *)
(*    not mention it: owned like any other ID.                              *)
(*  * argument SHAPES: e.shape \in {"single","list","default"}.             *)
(*    add_subscriptions / remove_destinations / remove_subscriptions take a *)
(*    path or a LIST of paths (add_subscriptions also None = "all owned     *)
(*    destinations").  e.dnames (and e.fnames for remove_subscriptions) is  *)
(*    the argument as a sequence; the call is the sequence of the single    *)
(*    calls, stopping at the first one that fails (SeqCall): what the       *)
(*    earlier items did stays done, `owned` applies to every item.          *)
(*  * cross-manager subscriptions: a manager may subscribe its destination  *)
(*    to another manager's owned filter (and vice versa).  Then             *)
(*    remove_server / remove_all_servers of the other manager CANNOT delete *)
(*    its referenced filter / destination (Blocked): the only admissible    *)
(*    outcome is CIM_ERR_FAILED, the server stays registered, whatever      *)
(*    owned instances are still in the server (the observation decides      *)
(*    which: PartialSrv) are still owned AND STILL LISTED, and a later      *)
(*    remove_server (after the other manager removed its subscription)      *)
(*    deletes exactly those.                                                *)
(*  * o.err: the get_owned_* calls of a registered manager that raised; a   *)
(*    registered server's lists are retrievable (OwnedLists.Retrievable).   *)
(***************************************************************************)
EXTENDS Naturals, Sequences, FiniteSets, TLC

F(name, holds) == IF holds THEN {} ELSE {name}
Rng(q) == {q[i] : i \in DOMAIN q}

Servers == {1, 2}
EmptySrv == [d |-> {}, f |-> {}, s |-> {}]
InitState == [srv |-> [sv \in Servers |-> EmptySrv], reg |-> {},
              mid |-> << >>, iter |-> {}]

DN(id, x) == "pywbemdestination:" \o id \o ":" \o x
FN(id, x) == "pywbemfilter:" \o id \o ":" \o x

Names(S) == {x.name : x \in S}
ByName(S, n) == CHOOSE x \in S : x.name = n
Subs(S) == {[f |-> x.f, d |-> x.d] : x \in S}
(* a filter and a destination may have the same Name: per kind              *)
RefFilt(sv, n) == \E x \in sv.s : x.f = n
RefDest(sv, n) == \E x \in sv.s : x.d = n
Id(s, m) == s.mid[m]
Registered(s, e) == <<e.m, e.sv>> \in s.reg

(*------------------------- expected effect ------------------------------*)
(* result kinds: "ok" | "existing" (an already existing owned instance was *)
(* returned) | "CIMError" (code) | "ValueError" | other exception name     *)

AddDestName(s, e) == IF e.owned THEN DN(Id(s, e.m), e.xid) ELSE e.name
AddFiltName(s, e) == IF e.owned THEN FN(Id(s, e.m), e.xid) ELSE e.name

ALREADY_EXISTS == 11
FAILED == 1
NOT_FOUND == 6

Outcome(op, adm, e) ==
  F(op \o ".AdmissibleOutcome",
    \E a \in adm : a[1] = e.res /\ (a[2] = 0 \/ a[2] = e.code))

(* admissible outcomes as set of <<res, code>>, and the new server record *)
AddDest(s, e) ==
  LET sv == s.srv[e.sv]
      n == AddDestName(s, e)
      id == Id(s, e.m)
      dup == e.owned /\ \E x \in sv.d : x.creator = id /\ x.url = e.url
      new == [name |-> n, creator |-> IF e.owned THEN id ELSE "",
              url |-> e.url] IN
  IF e.badargs THEN <<{<<"ValueError", 0>>}, sv>>
  ELSE IF n \in Names(sv.d)
  THEN <<{<<"CIMError", ALREADY_EXISTS>>} \cup
         (IF dup THEN {<<"existing", 0>>} ELSE {}), sv>>
  ELSE IF dup THEN <<{<<"existing", 0>>}, sv>>
  ELSE <<{<<"ok", 0>>}, [sv EXCEPT !.d = @ \cup {new}]>>

AddFilt(s, e) ==
  LET sv == s.srv[e.sv]
      n == AddFiltName(s, e)
      new == [name |-> n, creator |-> IF e.owned THEN Id(s, e.m) ELSE "",
              url |-> ""] IN
  IF e.badargs THEN <<{<<"ValueError", 0>>}, sv>>
  ELSE IF n \in Names(sv.f) THEN <<{<<"CIMError", ALREADY_EXISTS>>}, sv>>
  ELSE <<{<<"ok", 0>>}, [sv EXCEPT !.f = @ \cup {new}]>>

(* one subscription of manager ID id on the server record sv               *)
AddSub1(sv, id, fname, dname, owned) ==
  LET fo == fname \in Names(sv.f) /\ ByName(sv.f, fname).creator = id
      do == dname \in Names(sv.d) /\ ByName(sv.d, dname).creator = id
      ex == {x \in sv.s : x.f = fname /\ x.d = dname}
      new == [f |-> fname, d |-> dname,
              creator |-> IF owned THEN id ELSE ""] IN
  IF ~owned /\ (fo \/ do) THEN <<{<<"ValueError", 0>>}, sv>>
  ELSE IF ex # {}
  THEN IF owned /\ \E x \in ex : x.creator = id
       THEN <<{<<"existing", 0>>, <<"ok", 0>>}, sv>>
       ELSE <<{<<"CIMError", ALREADY_EXISTS>>}, sv>>
  ELSE <<{<<"ok", 0>>}, [sv EXCEPT !.s = @ \cup {new}]>>

RemDest1(sv, dname) ==
  IF dname \notin Names(sv.d) THEN <<{<<"CIMError", 0>>}, sv>>
  ELSE IF RefDest(sv, dname) THEN <<{<<"CIMError", FAILED>>}, sv>>
  ELSE <<{<<"ok", 0>>}, [sv EXCEPT !.d = {x \in @ : x.name # dname}]>>

RemFilt(s, e) ==
  LET sv == s.srv[e.sv] IN
  IF e.fname \notin Names(sv.f) THEN <<{<<"CIMError", 0>>}, sv>>
  ELSE IF RefFilt(sv, e.fname) THEN <<{<<"CIMError", FAILED>>}, sv>>
  ELSE <<{<<"ok", 0>>}, [sv EXCEPT !.f = {x \in @ : x.name # e.fname}]>>

RemSub1(sv, fname, dname) ==
  LET ex == {x \in sv.s : x.f = fname /\ x.d = dname} IN
  IF ex = {} THEN <<{<<"CIMError", 0>>}, sv>>
  ELSE <<{<<"ok", 0>>}, [sv EXCEPT !.s = @ \ ex]>>

(* A call whose path argument is a sequence (shape "list" / "default"; a    *)
(* single path is the sequence of length 1) = the single calls in order;    *)
(* the first failing one ends the call with its outcome, the effects of the *)
(* earlier ones stay.  <<admissible outcomes, server record afterwards>>    *)
Step(s, e, sv, i) ==
  CASE e.op = "add_subscription" ->
         AddSub1(sv, Id(s, e.m), e.fname, e.dnames[i], e.owned)
    [] e.op = "remove_destination" -> RemDest1(sv, e.dnames[i])
    [] e.op = "remove_subscription" -> RemSub1(sv, e.fnames[i], e.dnames[i])

StepOk(r) == \E a \in r[1] : a[1] \in {"ok", "existing"}

RECURSIVE SeqCall(_, _, _, _)
SeqCall(s, e, sv, i) ==
  IF Len(e.dnames) = 0 THEN <<{<<"ok", 0>>}, sv>>
  ELSE LET r == Step(s, e, sv, i) IN
       IF i = Len(e.dnames) \/ ~StepOk(r) THEN r
       ELSE SeqCall(s, e, r[2], i + 1)

(* remove_server / remove_all_servers / context exit: exactly the owned    *)
(* instances of this manager ID disappear                                  *)
WithoutOwned(sv, id) ==
  [d |-> {x \in sv.d : x.creator # id}, f |-> {x \in sv.f : x.creator # id},
   s |-> {x \in sv.s : x.creator # id}]

(* ... unless an owned filter / destination is referenced by a subscription *)
(* that is not owned by this ID (another manager's, or a permanent one made *)
(* by another manager): it cannot be removed, the call fails               *)
Blocked(sv, id) ==
  \E x \in sv.s : x.creator # id /\
     (\/ x.f \in Names(sv.f) /\ ByName(sv.f, x.f).creator = id
      \/ x.d \in Names(sv.d) /\ ByName(sv.d, x.d).creator = id)

(* after a failed clean-up: the owned instances that are still in the      *)
(* server (c = its observed content) are still owned; nothing else changed  *)
PartialSrv(sv, id, c) ==
  [d |-> {x \in sv.d : x.creator # id \/ x.name \in Rng(c.d)},
   f |-> {x \in sv.f : x.creator # id \/ x.name \in Rng(c.f)},
   s |-> {x \in sv.s : x.creator # id \/ (x.f \o "|" \o x.d) \in Rng(c.s)}]
ContentOf(e, sv) == CHOOSE c \in Rng(e.content) : c.sv = sv

Foreign(s, e) ==
  LET sv == s.srv[e.sv] IN
  IF e.kind = "d"
  THEN [sv EXCEPT !.d = @ \cup {[name |-> e.name, creator |-> "", url |-> e.url]}]
  ELSE [sv EXCEPT !.f = @ \cup {[name |-> e.name, creator |-> "", url |-> ""]}]

(* an owned add whose ID contains ':' may be refused                        *)
ColonRefusal(e) ==
  IF e.owned /\ e.xcls = "colon" THEN {<<"ValueError", 0>>} ELSE {}

(* names of the instances of kind k ("d","f","s") on sv owned by id         *)
OwnedNames(sv, id, k) ==
  CASE k = "d" -> {x.name : x \in {y \in sv.d : y.creator = id}}
    [] k = "f" -> {x.name : x \in {y \in sv.f : y.creator = id}}
    [] k = "s" -> {x.f \o "|" \o x.d : x \in {y \in sv.s : y.creator = id}}

SeqEffect(s, e) ==
  LET r == SeqCall(s, e, s.srv[e.sv], 1)
      s2 == [s EXCEPT !.srv[e.sv] = r[2]] IN
  <<r[1], s2, s2>>

RemoveServer(s, e) ==
  LET id == Id(s, e.m)
      sv == s.srv[e.sv] IN
  <<IF Blocked(sv, id) THEN {<<"CIMError", FAILED>>} ELSE {<<"ok", 0>>},
    [s EXCEPT !.srv[e.sv] = WithoutOwned(@, id),
              !.reg = @ \ {<<e.m, e.sv>>}],
    \* failed: still registered, what is left of the owned instances is owned
    [s EXCEPT !.srv[e.sv] = PartialSrv(@, id, ContentOf(e, e.sv))]>>

(* e.regd: the servers the manager still has registered after the call     *)
RemoveAll(s, e) ==
  LET id == Id(s, e.m)
      mine == {sv \in Servers : <<e.m, sv>> \in s.reg} IN
  <<IF \E sv \in mine : Blocked(s.srv[sv], id)
    THEN {<<"CIMError", FAILED>>} ELSE {<<"ok", 0>>},
    [s EXCEPT !.srv = [sv \in Servers |->
                         IF sv \in mine THEN WithoutOwned(s.srv[sv], id)
                         ELSE s.srv[sv]],
              !.reg = {r \in @ : r[1] # e.m}],
    \* failed: the servers no longer registered are cleaned completely, the
    \* others keep what is observed to be left
    [s EXCEPT !.srv = [sv \in Servers |->
                         IF sv \notin mine THEN s.srv[sv]
                         ELSE IF sv \in Rng(e.regd)
                         THEN PartialSrv(s.srv[sv], id, ContentOf(e, sv))
                         ELSE WithoutOwned(s.srv[sv], id)],
              !.reg = {r \in @ : r[1] # e.m \/ r[2] \in Rng(e.regd)}]>>

Effect(s, e) ==   \* <<admissible outcomes, state if succeeded, state if failed>>
  CASE e.op = "new_manager" ->
         <<{<<"ok", 0>>},
           [s EXCEPT !.mid = (e.m :> e.id) @@ @,
                     \* a manager object that is replaced is no longer observed
                     !.reg = {r \in @ : r[1] # e.m}], s>>
    [] e.op = "add_server" ->
         <<{<<"ok", 0>>}, [s EXCEPT !.reg = @ \cup {<<e.m, e.sv>>}], s>>
    [] e.op = "add_destination" ->
         <<AddDest(s, e)[1] \cup ColonRefusal(e),
           [s EXCEPT !.srv[e.sv] = AddDest(s, e)[2]], s>>
    [] e.op = "add_filter" ->
         <<AddFilt(s, e)[1] \cup ColonRefusal(e),
           [s EXCEPT !.srv[e.sv] = AddFilt(s, e)[2]], s>>
    [] e.op \in {"add_subscription", "remove_destination",
                 "remove_subscription"} -> SeqEffect(s, e)
    [] e.op = "remove_filter" ->
         <<RemFilt(s, e)[1], [s EXCEPT !.srv[e.sv] = RemFilt(s, e)[2]], s>>
    [] e.op = "remove_server" -> RemoveServer(s, e)
    [] e.op = "remove_all_servers" -> RemoveAll(s, e)
    [] e.op = "foreign_create" ->
         <<{<<"ok", 0>>}, [s EXCEPT !.srv[e.sv] = Foreign(s, e)], s>>
    [] e.op = "client_mutate" -> <<{<<"ok", 0>>}, s, s>>
    [] e.op = "iter_begin" ->
         <<{<<"ok", 0>>},
           [s EXCEPT !.iter = OwnedNames(s.srv[e.sv], Id(s, e.m), e.kind)], s>>
    [] e.op = "iter_end" -> <<{<<"ok", 0>>}, [s EXCEPT !.iter = {}], s>>

Succeeded(e) == e.res \in {"ok", "existing"}

Apply(s, e) ==
  LET eff == Effect(s, e) IN
  IF Succeeded(e)
  THEN IF \E a \in eff[1] : a[1] = e.res THEN eff[2] ELSE s
  ELSE eff[3]

(*---------------------------- observation -------------------------------*)
(* e.content : sequence of [sv, d, f, s] (name sequences; subscriptions as *)
(*             "filtername|destname")                                      *)
(* e.owned_lists : sequence of [m, sv, d, f, s] for every registered pair  *)
SubName(x) == x.f \o "|" \o x.d

ContentFails(s2, e) ==
  UNION {
     F("ServerContent.Destinations", Rng(c.d) = Names(s2.srv[c.sv].d))
     \cup F("ServerContent.Filters", Rng(c.f) = Names(s2.srv[c.sv].f))
     \cup F("ServerContent.Subscriptions",
            Rng(c.s) = {SubName(x) : x \in s2.srv[c.sv].s})
     : c \in Rng(e.content)}

OwnedFails(s2, e) ==
  UNION {
     LET id == s2.mid[o.m]
         sv == s2.srv[o.sv] IN
     F("OwnedLists.Destinations",
       Rng(o.d) = {x.name : x \in {y \in sv.d : y.creator = id}})
     \cup F("OwnedLists.Filters",
            Rng(o.f) = {x.name : x \in {y \in sv.f : y.creator = id}})
     \cup F("OwnedLists.Subscriptions",
            Rng(o.s) = {SubName(x) : x \in {y \in sv.s : y.creator = id}})
     \cup F("OwnedLists.Retrievable", o.err = << >>)
     \cup F("OwnedLists.NoDuplicates",
            Len(o.d) = Cardinality(Rng(o.d)) /\ Len(o.f) = Cardinality(Rng(o.f))
            /\ Len(o.s) = Cardinality(Rng(o.s)))
     : o \in {x \in Rng(e.owned_lists) : <<x.m, x.sv>> \in s2.reg}}

Fails(s, e) ==
  LET eff == Effect(s, e)
      s2 == Apply(s, e) IN
  Outcome(e.op, eff[1], e)
  \cup ContentFails(s2, e)
  \cup OwnedFails(s2, e)
  \cup (IF e.op = "iter_end"
        THEN F("IterateAndRemove.VisitsEveryListedInstance",
               Rng(e.visited) = s.iter /\ Len(e.visited) = Cardinality(s.iter))
        ELSE {})
  \cup (IF e.op = "add_subscription" /\ e.shape = "default"
        THEN F("AddSubscriptions.DefaultIsTheOwnedDestinations",
               Rng(e.dnames) = OwnedNames(s.srv[e.sv], Id(s, e.m), "d"))
        ELSE {})
  \cup (IF e.op = "remove_all_servers" /\ ~Succeeded(e)
        THEN F("RemoveAllServers.BlockedServerStaysRegistered",
               \A sv \in Servers :
                  <<e.m, sv>> \in s.reg /\ Blocked(s.srv[sv], Id(s, e.m))
                  => sv \in Rng(e.regd))
        ELSE {})
  \cup F("OwnedLists.EveryRegisteredManagerObserved",
         \A r \in s2.reg : \E o \in Rng(e.owned_lists) : o.m = r[1] /\ o.sv = r[2])
=============================================================================
