\* regression config: compile_embedded_value restores parser.mof only after a single string, not after a list (must violate ImplRefinesReq: IndexError)
SPECIFICATION Spec
CONSTANTS
  MaxProd = 1
  MaxDepth = 6
  OnlyKinds = {"instance"}
  IncludeGuard = TRUE
  NsNoneCheck = TRUE
  HexBounds = TRUE
  CtxBounds = TRUE
  ValueWrapped = TRUE
  RepoWrapped = TRUE
  EmbFinally = TRUE
  RestoreOnReturn = TRUE
  EmbRestoreAll = FALSE
  SuperCheckFirst = TRUE
  AncestryWalk = TRUE
  GuardCanonical = TRUE
  RegisterAfterCreate = TRUE
  NsCachesInit = TRUE
  EmbNullChecked = TRUE
  OverflowWrapped = TRUE
  InstOffsetAll = TRUE
  OpenPrecheck = TRUE
  EmbLexerClone = TRUE
INVARIANT TypeOK
INVARIANT ImplRefinesReq
INVARIANT PositionFileOK
INVARIANT Reusable

CHECK_DEADLOCK FALSE
