SPECIFICATION Spec
CONSTANTS
  Big = FALSE
  HashNameCaseSensitive = FALSE
  DictNoLenCheck = FALSE
  DictOrdered = FALSE
  EqNameCasefold = TRUE
  DictGetLookup = FALSE
  MCKinds <- Kinds
INVARIANT ImplAgrees
INVARIANT ImplSymmetric
INVARIANT ImplEqImpliesHash
CHECK_DEADLOCK FALSE
