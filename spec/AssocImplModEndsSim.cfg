\* behaviour emission: ModifyInstance of reference properties (all cases of ModCase)
SPECIFICATION Spec
CONSTANTS
  LegacyBreak = FALSE
  SwapIn = ""
  NoShadow = FALSE
  NoPreCheck = FALSE
  XParU = {}
  ModEnds = "asis"
  ShallowSub = FALSE
  IgnoreNs = FALSE
  ModSharedPath = FALSE
  MaxMod = 0
  NodeU <- NodeU5
  MaxAssoc = 2
  CreateNs = {1, 2}
  ClsU = {"AL"}
  AcU <- AcSmall
  RcU <- RcSmall
  RlU <- RlSmall
  GenDepth = 5
CONSTRAINT GenConstraint
CHECK_DEADLOCK FALSE
