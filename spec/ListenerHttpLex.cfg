\* every lexeme class at every position the CIM-XML reader converts (alone and with one more
\* deviation), followed by a valid indication: the repaired code shape meets every clause
SPECIFICATION Spec
CONSTANTS
  MaxReq = 2
  Alphabet <- LexUpTo2
  San = TRUE
  ClChk = TRUE
  Threaded = TRUE
  FinalValid = TRUE
  QCap = 0
  Gating = FALSE
  QfRet = TRUE
  Echo = "xml10"
  PName = "exact"
  Deep = "caught"
  LexG = "full"
INVARIANT InvAllClauses
INVARIANT InvNeverStuck
INVARIANT InvDelivered
INVARIANT InvNoSpurious
CHECK_DEADLOCK FALSE
