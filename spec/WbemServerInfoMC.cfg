SPECIFICATION Spec
CONSTANTS
  PinnedDupCheck = FALSE
  PinnedDeleteCase = FALSE
  PinnedBrand = FALSE
  Variant = "code"
INVARIANT BrandTable
INVARIANT SelectTable
CHECK_DEADLOCK FALSE
