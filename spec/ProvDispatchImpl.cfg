\* quick, instance-write side: valid descriptors 1,2 (instance-write) + 9 refused
\* descriptors, every Create/Modify/Delete shape, <= 1 instance
SPECIFICATION Spec
CONSTANTS
  NsArgFormatBug = FALSE
  ClassnamesAssert = FALSE
  OutOnlyUnchecked = FALSE
  PragmaCaseSensitive = FALSE
  RecompileExisting = FALSE
  Variant = "none"
  Provs <- ProvsIw
  NsArgs <- NsArgsSmall
  SetupBehs = {"ok", "raise"}
  Targets <- TargetsSmall
  KeyU = {1}
  GenDepth = 0
  MaxStore = 1
  IwLevel = "full"
  MethLevel = "off"
INVARIANT ImplRefinesReq
INVARIANT MappingHolds
INVARIANT ReqWellFormed
CONSTRAINT StoreBound
CHECK_DEADLOCK FALSE
