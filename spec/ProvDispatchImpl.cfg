\* quick tier: 4 valid + 9 invalid provider descriptors, 9 namespace
\* arguments, 9 targets, one key
SPECIFICATION Spec
CONSTANTS
  NsArgFormatBug = FALSE
  ClassnamesAssert = FALSE
  OutOnlyUnchecked = FALSE
  Variant = "none"
  Provs <- ProvsSmall
  NsArgs <- NsArgsSmall
  SetupBehs = {"ok", "raise"}
  Targets <- TargetsSmall
  KeyU = {1}
  GenDepth = 0
INVARIANT ImplRefinesReq
INVARIANT MappingHolds
INVARIANT ReqWellFormed
CHECK_DEADLOCK FALSE
