SPECIFICATION Spec
CONSTANTS
  Leaks = {"FirstObjectOnly"}
  Pinned = FALSE
  PairMode = "none"
  Emit = FALSE
INVARIANT TypeOK
INVARIANT ImplRefinesReq
INVARIANT ClosedForm

CHECK_DEADLOCK FALSE
