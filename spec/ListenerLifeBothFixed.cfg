\* repaired start() (X02_fix_start_cleanup.diff), HTTP+HTTPS, every environment
SPECIFICATION Spec
CONSTANTS
  Cfg = {"http", "https"}
  Envs <- EnvsBoth
  Senders = {"s1"}
  NInd = 2
  MaxQ = 1
  MaxOps = 2
  InitCbs <- Cbs1
  AddCbs = {}
  FailCleanup = "full"
  CloseOnCertFail = TRUE
  ClearRobust = TRUE
  StopGuard = TRUE
  DupCheck = TRUE
  FailStopsDelivery = TRUE
INVARIANT StartFailHolds
INVARIANT OtherHolds
PROPERTY MainTerminates
CHECK_DEADLOCK FALSE
