CONSTANTS
  Big = FALSE
  GenKinds <- Kinds
