--------------------------- MODULE MofTextDeclMC ---------------------------
(***************************************************************************)
(* Model check of the qualifier declaration level of C08 (MofTextDecl).    *)
(*                                                                         *)
(* Scope pipeline (one step per stage: dictionary -> Scope(...) text ->    *)
(* compiled dictionary) over every scopes dictionary with up to MaxKeys    *)
(* entries in every spelling of the keys:                                  *)
(*   ScopeRoundTrip    the text is accepted and the compiled declaration   *)
(*                     has exactly the original's true scopes              *)
(* Compiler session (prime / declare / use steps, up to MaxSteps, two      *)
(* qualifier names, four versions of a declaration):                       *)
(*   SessionRoundTrip  a class is compiled with the qualifier typed and    *)
(*                     flavored by the declaration that is in the          *)
(*                     repository at that time; every valid text is        *)
(*                     accepted and its object arrives, also after texts   *)
(*                     the compiler rejected (fail / inst steps)           *)
(*   CacheCoherent     once the compiler has cached a declaration it is    *)
(*                     the repository's                                    *)
(*                                                                         *)
(* MofTextDeclMC.cfg = the unchanged tree, must pass; it PRINTS the scope  *)
(* cases and the session histories that the driver concretises.            *)
(* MofTextDeclMCLegacyScopeKey.cfg / MofTextDeclMCLegacyCache.cfg must     *)
(* FAIL; all wrong variants are also refuted by the ASSUME below on the    *)
(* emitted cases themselves (the emitted suite can tell them apart).       *)
(***************************************************************************)
EXTENDS MofTextDecl

CONSTANTS KeyCaseSensitive, FlagIgnored, CacheSetDefault, CacheNotUpdated,
          EmbModeSticks, MaxKeys, MaxSteps, Emit

SV == [keyCaseSensitive |-> KeyCaseSensitive, flagIgnored |-> FlagIgnored]
CV == [cacheSetDefault |-> CacheSetDefault,
       cacheNotUpdated |-> CacheNotUpdated,
       embModeSticks |-> EmbModeSticks]

VARIABLES sc, ss
vars == <<sc, ss>>

NoDict == [i \in 1..NS |-> Absent]
ScIdle == [phase |-> "idle", d |-> NoDict, text |-> <<>>,
           accepted |-> FALSE, scopes |-> {}]
SsIdle == [on |-> FALSE, n |-> 0, s |-> Sess0]

Init == \/ /\ \E d \in ScopeUniverse(MaxKeys) :
                sc = [ScIdle EXCEPT !.phase = "object", !.d = d]
           /\ ss = SsIdle
        \/ /\ sc = ScIdle
           /\ ss = [SsIdle EXCEPT !.on = TRUE]

WriteScope == /\ sc.phase = "object"
              /\ sc' = [sc EXCEPT !.phase = "text",
                                  !.text = ScopeText(sc.d, SV)]
              /\ UNCHANGED ss
CompileScope == /\ sc.phase = "text"
                /\ LET c == ScopeCompile(sc.text)
                   IN sc' = [sc EXCEPT !.phase = "compiled",
                                       !.accepted = c.accepted,
                                       !.scopes = c.scopes]
                /\ UNCHANGED ss

Actions == {P(n, v) : n \in QNames, v \in Versions}
           \cup {D(n, v) : n \in QNames, v \in Versions}
           \cup {U(n) : n \in QNames}
           \cup {Fl(k) : k \in FailKinds} \cup {In(k) : k \in InstKinds}
SessStep == /\ ss.on /\ ss.n < MaxSteps
            /\ \E a \in Actions :
                 /\ Enabled(ss.s, a)
                 /\ ss' = [ss EXCEPT !.n = @ + 1, !.s = Step(ss.s, a, CV)]
            /\ UNCHANGED sc

Next == WriteScope \/ CompileScope \/ SessStep
Spec == Init /\ [][Next]_vars

ScopeRoundTrip ==
  sc.phase = "compiled" => sc.accepted /\ sc.scopes = TrueSet(sc.d)
SessionRoundTrip == UseOk(ss.s)
CacheCoherent ==
  \A n \in QNames : ss.s.cache[n] # 0 => ss.s.cache[n] = ss.s.repo[n]

(* sensitivity of the model AND of the emitted suite *)
WrongS(f) == [ScopeTree EXCEPT ![f] = TRUE]
WrongC(f) == [SessTree EXCEPT ![f] = TRUE]
RefS(f) == {d \in ScopeCases : ~ScopeRoundTrips(d, WrongS(f))}
RefC(f) == {h \in Histories : ~Run(h, WrongC(f)).ok}
ASSUME ~Emit \/
       /\ \A d \in ScopeCases : ScopeRoundTrips(d, ScopeTree)
       /\ \A h \in Histories : Run(h, SessTree).wf /\ Run(h, SessTree).ok
       /\ \A h \in Histories : Len(h) <= MaxSteps
       /\ RefS("keyCaseSensitive") =
            {d \in ScopeCases : \E i \in TrueSet(d) : d[i].sp # "U"}
       /\ RefS("flagIgnored") =
            {d \in ScopeCases : \E i \in 1..NS : d[i].in /\ ~d[i].flag}
       /\ \A f \in {"keyCaseSensitive", "flagIgnored"} :
            PrintT(<<"REFUTED", f, Cardinality(RefS(f))>>)
       \* a failed NESTED compile followed by any valid text
       /\ RefC("embModeSticks") =
            {h \in Histories :
               \E i \in DOMAIN h : /\ h[i].op = "fail"
                                   /\ h[i].n \in EmbFailKinds
                                   /\ \E j \in (i + 1)..Len(h) :
                                        h[j].op \in {"declare", "use", "inst"}}
       /\ \A f \in {"cacheSetDefault", "cacheNotUpdated", "embModeSticks"} :
            PrintT(<<"REFUTED", f, Cardinality(RefC(f))>>)

ASSUME ~Emit \/ /\ \A d \in ScopeCases : PrintT(<<"SCOPECASE", CaseCode(d)>>)
                /\ \A h \in Histories : PrintT(<<"HISTORY", HistCode(h)>>)
=============================================================================
