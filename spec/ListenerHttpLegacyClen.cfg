\* regression configuration (must FAIL): int(Content-Length) / read(n) unchecked -> handler dies
SPECIFICATION Spec
CONSTANTS
  MaxReq = 1
  Alphabet <- UpTo1
  San = TRUE
  ClChk = FALSE
  Threaded = TRUE
  FinalValid = FALSE
  QCap = 0
  Gating = FALSE
  QfRet = TRUE
  Echo = "xml10"
  PName = "exact"
  Deep = "caught"
  LexG = "full"
INVARIANT InvNoDroppedConnection
CHECK_DEADLOCK FALSE
