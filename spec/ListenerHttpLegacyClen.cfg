\* regression configuration (must FAIL): int(Content-Length) / read(n) unchecked -> handler dies
SPECIFICATION Spec
CONSTANTS
  MaxReq = 1
  Alphabet <- UpTo1
  San = TRUE
  ClChk = FALSE
  Threaded = TRUE
  FinalValid = FALSE
INVARIANT InvNoDroppedConnection
CHECK_DEADLOCK FALSE
