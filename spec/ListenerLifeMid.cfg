\* thorough: pinned code shape, HTTP only: programs of 3 calls incl. add_callback(2) + stop, 1 sender x 2 indications
SPECIFICATION Spec
CONSTANTS
  Cfg = {"http"}
  Envs <- EnvsHttp
  Senders = {"s1"}
  NInd = 2
  MaxQ = 1
  MaxOps = 3
  InitCbs <- Cbs1
  AddCbs = {2}
  FailCleanup = "code"
  CloseOnCertFail = FALSE
  ClearRobust = FALSE
  StopGuard = TRUE
  DupCheck = TRUE
  FailStopsDelivery = TRUE
INVARIANT StartFailHolds
INVARIANT OtherHolds
PROPERTY MainTerminates
CHECK_DEADLOCK FALSE
