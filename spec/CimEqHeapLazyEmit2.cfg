SPECIFICATION Spec
CONSTANTS
  MaxRef = 60
  MaxMut = 2
  Roots <- AllRoots
  ShallowChildDict = FALSE
  SharedPath = FALSE
  EmptyListPassThrough = FALSE
  Mode = "hist"
  HashCache = "none"
  LazyHash = "raw"
  ObsKinds <- ObsActs
  EmitLazy = TRUE
  CopyViaCtor = FALSE
  Emit = TRUE
INVARIANT CacheOnlyAfterHash
INVARIANT EmitBeh
CHECK_DEADLOCK FALSE
