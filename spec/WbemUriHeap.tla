---------------------------- MODULE WbemUriHeap -----------------------------
(***************************************************************************)
(* C07 in a HISTORY of calls.  The laws of WbemUri (round trip, printed    *)
(* URI accepted) are stated for one call; an application makes many calls  *)
(* and modifies the path objects it got back.  The laws must hold at every *)
(* point of such a history:                                                *)
(*                                                                         *)
(*   Parse(text)    returns a FRESH value that depends only on the text    *)
(*   Mutate(h, pl)  the caller modifies a previously returned object h at  *)
(*                  a place pl (the object itself or the reference it      *)
(*                  holds, nested d levels deep: namespace, host, class    *)
(*                  name, a keybinding value, a new keybinding)            *)
(*   Print(h, fmt)  to_wbem_uri of a previously returned object; the text  *)
(*                  becomes available for later Parse steps                *)
(*   Observe(h)     (before and after every Mutate) h is printed, the text *)
(*                  parsed, a new equal path printed (canonical): the laws *)
(*                  of WbemUri for the CURRENT value of h                  *)
(*                                                                         *)
(* Requirement machine (HInit/HFails/HApply, event style; the abstract     *)
(* state is the sequence of returned objects as VALUES (trees) and the     *)
(* registered texts with the path they were printed from):                 *)
(*   RoundTrip/RoundTripEq/PrintedAccepted  as in WbemUri, for every Parse *)
(*                  at any point of the history                            *)
(*   ParseFunctional  a text parsed twice gives the same value             *)
(*   Independent    after every step every object returned so far has      *)
(*                  exactly the value the history of its OWN mutations     *)
(*                  gives it (mutating one object never changes another    *)
(*                  one, a parse or a print changes none)                  *)
(*                                                                         *)
(* Code shape (second half): the heap of the Python process as cells with  *)
(* addresses; a reference keybinding holds the ADDRESS of the nested path  *)
(* object.  from_wbem_uri allocates; with V.cache = "refs" the reference   *)
(* values go through a cache keyed by the reference text (one shared cell  *)
(* for equal text), with "all" every from_wbem_uri call does.  WbemUriHist *)
(* lets TLC decide whether the code shape meets the requirement.           *)
(***************************************************************************)
EXTENDS WbemUri

(* ------------------------------ places --------------------------------- *)
NewNs == <<"b", "sl", "b">>
NewHost == <<"b", "b">>
NewCls == <<"b", "b">>
NewKey == <<"b", "b", "b">>
NewStr == Val("string", "", <<"b">>, <<>>)
(* the caller's in-place modifications of a path object.  An operation is *)
(* an EFFECT on the value and a ROUTE by which python code achieves it:     *)
(*   attribute setters    obj.namespace / .host / .classname = ..           *)
(*                        obj.keybindings = {..}            ("kbrepl")      *)
(*   item access on the path       obj[k] = v, del obj[k]   (".item")       *)
(*   the keybindings dictionary    obj.keybindings[k] = v,                  *)
(*                        del obj.keybindings[k]            (".dict")       *)
(*                        obj.keybindings.update({k: v})    (".update")     *)
(* The requirement only knows the effect: every route gives the same value, *)
(* and every later observation (print, parse of the print) is a function of *)
(* the current value.                                                       *)
SetterOps == {"ns", "host", "cls", "kbrepl"}
ItemOps == {"kbset.item", "kbadd.item", "kbdel.item"}
DictOps == {"kbset.dict", "kbadd.dict", "kbdel.dict", "kbset.update",
            "kbadd.update"}
MutFields == SetterOps \cup ItemOps \cup DictOps
OpEff(f) == CASE f \in {"kbset.item", "kbset.dict", "kbset.update"} -> "kbset"
              [] f \in {"kbadd.item", "kbadd.dict", "kbadd.update"} -> "kbadd"
              [] f \in {"kbdel.item", "kbdel.dict"} -> "kbdel"
              [] OTHER -> f

(* the reference that is followed: the first reference-typed keybinding;   *)
(* "kbset" assigns to the first keybinding that is not a reference, "kbdel" *)
(* deletes it (only if another keybinding remains: instance paths without   *)
(* keys are outside the statement), "kbrepl" replaces all keybindings       *)
FirstRef(kb) == LET is == {i \in DOMAIN kb : kb[i].v.t = "reference"}
                IN IF is = {} THEN 0 ELSE MinOf(is)
FirstPlain(kb) == LET is == {i \in DOMAIN kb : kb[i].v.t # "reference"}
                  IN IF is = {} THEN 0 ELSE MinOf(is)
KeyIdx(kb, k) == LET is == {i \in DOMAIN kb : NameEq(kb[i].k, k)}
                 IN IF is = {} THEN 0 ELSE MinOf(is)
DropIdx(q, i) == SubSeq(q, 1, i - 1) \o SubSeq(q, i + 1, Len(q))

(* one object (tree node or heap cell: same record shape)                  *)
CanMut(o, f) ==
  CASE OpEff(f) \in {"ns", "host", "cls"} -> f \in MutFields
    [] OpEff(f) = "kbset" -> o.kind = "inst" /\ FirstPlain(o.kb) # 0
    [] OpEff(f) = "kbadd" -> o.kind = "inst"
    [] OpEff(f) = "kbrepl" -> o.kind = "inst"
    [] OpEff(f) = "kbdel" -> o.kind = "inst" /\ FirstPlain(o.kb) # 0
                            /\ Len(o.kb) >= 2
    [] OTHER -> FALSE
MutHere(o, f) ==
  CASE OpEff(f) = "ns" -> [o EXCEPT !.hasns = TRUE, !.ns = NewNs]
    [] OpEff(f) = "host" -> [o EXCEPT !.hashost = TRUE, !.host = NewHost]
    [] OpEff(f) = "cls" -> [o EXCEPT !.cls = NewCls]
    [] OpEff(f) = "kbset" -> [o EXCEPT !.kb[FirstPlain(o.kb)].v = NewStr]
    [] OpEff(f) = "kbadd" ->
         IF KeyIdx(o.kb, NewKey) # 0
         THEN [o EXCEPT !.kb[KeyIdx(o.kb, NewKey)].v = NewStr]
         ELSE [o EXCEPT !.kb = Append(@, KB(NewKey, NewStr))]
    [] OpEff(f) = "kbrepl" -> [o EXCEPT !.kb = <<KB(NewKey, NewStr)>>]
    [] OpEff(f) = "kbdel" -> [o EXCEPT !.kb = DropIdx(@, FirstPlain(o.kb))]
    [] OTHER -> o

(* values (trees): the place d levels down                                 *)
RECURSIVE TreeHas(_, _, _)
TreeHas(p, d, f) ==
  IF d = 0 THEN CanMut(p, f)
  ELSE p.kind = "inst" /\ FirstRef(p.kb) # 0 /\
       TreeHas(p.kb[FirstRef(p.kb)].v.r[1], d - 1, f)
RECURSIVE TreeMut(_, _, _)
TreeMut(p, d, f) ==
  IF d = 0 THEN MutHere(p, f)
  ELSE [p EXCEPT !.kb[FirstRef(p.kb)].v.r = <<TreeMut(@[1], d - 1, f)>>]

(* an equal path: every name lower-cased, keybinding order reversed        *)
(* (recursively); built by the observer as a NEW object                    *)
RECURSIVE Twin(_)
Twin(p) ==
  Path(p.kind, p.hashost, LowerSeq(p.host), p.hasns, LowerSeq(p.ns),
       LowerSeq(p.cls),
       Reverse([i \in DOMAIN p.kb |->
                  KB(LowerSeq(p.kb[i].k),
                     IF p.kb[i].v.t = "reference"
                     THEN Val("reference", "", <<>>, <<Twin(p.kb[i].v.r[1])>>)
                     ELSE p.kb[i].v)]))

(* ------------------------------ requirement ---------------------------- *)
(* state: heap = the objects returned so far, as values; texts = the       *)
(* registered texts [p: the path the text was printed from, fmt];          *)
(* res[t] = value of the first Parse of text t (NoPath: not parsed yet)    *)
HInit == [heap |-> <<>>, texts |-> <<>>, res |-> <<>>]
HistKinds == {"htext", "hprint", "hparse", "hmutate", "hobs"}

(* events:                                                                 *)
(*  htext:   p, fmt, printed, text      a path of the universe is printed  *)
(*  hprint:  h, fmt, printed, text, pk, heap    object h is printed        *)
(*  hparse:  t, outcome, q, eq, heap    text t is parsed; q = projection   *)
(*           of the result, heap = projection of ALL returned objects      *)
(*           after the call (the new one last)                             *)
(*  hmutate: h, d, f, heap              the caller modifies object h       *)
(*  hobs:    h, fmt, printed, text, outcome, q, eq, p2, same               *)
(*           OBSERVATION of object h at this point of the history (made    *)
(*           before and after every modification): h is printed, the text  *)
(*           is parsed (outcome, projection q of the result, python == of  *)
(*           the result and h); for the canonical format a NEW path p2     *)
(*           (built by the observer from the current value of h, names in  *)
(*           other case, other key order) is printed too, same = the two   *)
(*           texts are identical.  The laws of Fails for the CURRENT VALUE *)
(*           s.heap[h]: printing is a function of the current value.       *)
HFails(s, e) ==
  CASE e.kind = "htext" -> F("Printed", e.printed = "ok")
    [] e.kind = "hprint" ->
         IF e.h \notin DOMAIN s.heap THEN {"BadHistory"}
         ELSE F("Printed", e.printed = "ok")
              \cup F("Independent", e.heap = s.heap)
    [] e.kind = "hparse" ->
         IF e.t \notin DOMAIN s.texts THEN {"BadHistory"}
         ELSE LET src == s.texts[e.t]
              IN F("ParserTotal", e.outcome \in {"path", "ValueError"})
                 \cup F("PrintedAccepted", e.outcome = "path")
                 \cup (IF e.outcome # "path" THEN {}
                       ELSE (IF src.fmt \in RoundTripFmts
                             THEN F("RoundTrip", PathApprox(src.p, e.q))
                                  \cup F("RoundTripEq",
                                         Lossless(src.p) => e.eq)
                             ELSE {})
                            \cup F("ParseFunctional",
                                   s.res[e.t].kind = "none" \/
                                   s.res[e.t] = e.q)
                            \cup F("Independent",
                                   e.heap = Append(s.heap, e.q)))
    [] e.kind = "hmutate" ->
         IF e.h \notin DOMAIN s.heap THEN {"BadHistory"}
         ELSE IF ~TreeHas(s.heap[e.h], e.d, e.f) THEN {"BadHistory"}
         ELSE F("Independent",
                e.heap = [s.heap EXCEPT ![e.h] = TreeMut(@, e.d, e.f)])
    [] e.kind = "hobs" ->
         IF e.h \notin DOMAIN s.heap THEN {"BadHistory"}
         ELSE IF e.printed # "ok" THEN {"Printed"}
         ELSE LET cur == s.heap[e.h]
              IN F("ParserTotal", e.outcome \in {"path", "ValueError"})
                 \cup F("PrintedAccepted", e.outcome = "path")
                 \cup (IF e.fmt \in RoundTripFmts /\ e.outcome = "path"
                       THEN F("RoundTrip", PathApprox(cur, e.q))
                            \cup F("RoundTripEq", Lossless(cur) => e.eq)
                       ELSE {})
                 \cup (IF e.fmt = "canonical" /\ PathSame(cur, e.p2)
                       THEN F("CanonicalEqual", e.same) ELSE {})
    [] OTHER -> Fails(0, e)

HApply(s, e) ==
  CASE e.kind = "htext" ->
         [s EXCEPT !.texts = Append(@, [p |-> e.p, fmt |-> e.fmt]),
                   !.res = Append(@, NoPath)]
    [] e.kind = "hprint" ->
         [s EXCEPT !.texts = Append(@, [p |-> s.heap[e.h], fmt |-> e.fmt]),
                   !.res = Append(@, NoPath)]
    [] e.kind = "hparse" ->
         [s EXCEPT !.heap = e.heap,
                   !.res[e.t] = IF @.kind = "none" THEN e.q ELSE @]
    [] e.kind = "hmutate" -> [s EXCEPT !.heap = e.heap]
    [] OTHER -> s

(* ------------------------------ code shape ----------------------------- *)
(* process heap: cells[a] = a path object whose reference values hold the  *)
(* address of the nested object (r = <<address>>); cache = {[key, addr]}   *)
(* with key = <<kind, text>>; roots[h] = address of the h-th returned      *)
(* object.                                                                 *)
(* pcache = {[addr, val]}: the canonical text cached in the object at addr *)
(* (kept as the VALUE it was printed from: the text is PrintU of it).      *)
IState0 == [cells |-> <<>>, cache |-> {}, roots |-> <<>>, pcache |-> {}]

CacheHit(st, key) == \E c \in st.cache : c.key = key
CacheGet(st, key) == (CHOOSE c \in st.cache : c.key = key).addr
(* who goes through the cache: "refs" = the nested from_wbem_uri call of   *)
(* _kbstr_to_cimval only, "all" = every from_wbem_uri call                 *)
UseCache(V, nested) == V.cache = "all" \/ (V.cache = "refs" /\ nested)

(* from_wbem_uri(text) for a text the parser accepts: allocates the result *)
(* (nested references first, in the order of the keybindings in the text)  *)
RECURSIVE AllocU(_, _, _, _, _)
RECURSIVE AllocItems(_, _, _, _, _)
AllocItems(V, st, items, i, acc) ==
  IF i > Len(items) THEN [st |-> st, kb |-> acc]
  ELSE LET v == CimVal(V, items[i]).v
       IN IF v.t # "reference"
          THEN AllocItems(V, st, items, i + 1,
                          Append(acc, KB(items[i].k, v)))
          ELSE LET sub == AllocU(V, st, "inst", Unesc(items[i].body), TRUE)
               IN AllocItems(V, sub.st, items, i + 1,
                             Append(acc, KB(items[i].k,
                                            Val("reference", "", <<>>,
                                                <<sub.addr>>))))
AllocU(V, st, kind, text, nested) ==
  IF UseCache(V, nested) /\ CacheHit(st, <<kind, text>>)
  THEN [st |-> st, addr |-> CacheGet(st, <<kind, text>>)]
  ELSE LET t == StripLf(text)
           h == ParseHead(V, t)
           fold == IF kind = "class" THEN [st |-> st, kb |-> <<>>]
                   ELSE AllocItems(V, st,
                          SplitKbs(V, SubSeq(t, h.next + 1, Len(t)), 1).items,
                          1, <<>>)
           obj == Path(kind, h.hashost, h.host, h.hasns, h.ns, h.cls,
                       Dedupe(fold.kb))
           cells2 == Append(fold.st.cells, obj)
           a == Len(cells2)
       IN [st |-> [fold.st EXCEPT
                     !.cells = cells2,
                     !.cache = IF UseCache(V, nested)
                               THEN @ \cup {[key |-> <<kind, text>>,
                                             addr |-> a]}
                               ELSE @],
           addr |-> a]

IParse(V, st, kind, text) ==
  LET r == AllocU(V, st, kind, text, FALSE)
  IN [r.st EXCEPT !.roots = Append(@, r.addr)]

RECURSIVE Deref(_, _)
Deref(cells, a) ==
  LET o == cells[a]
  IN [o EXCEPT !.kb = [i \in DOMAIN o.kb |->
        IF o.kb[i].v.t = "reference"
        THEN KB(o.kb[i].k, Val("reference", "", <<>>,
                               <<Deref(cells, o.kb[i].v.r[1])>>))
        ELSE o.kb[i]]]
Snapshot(st) == [i \in DOMAIN st.roots |-> Deref(st.cells, st.roots[i])]

(* obj.keybindings[<first reference>]. ... .<field> = <new value>          *)
RECURSIVE INavOk(_, _, _)
INavOk(cells, a, d) ==
  d = 0 \/ (cells[a].kind = "inst" /\ FirstRef(cells[a].kb) # 0 /\
            INavOk(cells, cells[a].kb[FirstRef(cells[a].kb)].v.r[1], d - 1))
RECURSIVE INav(_, _, _)
INav(cells, a, d) ==
  IF d = 0 THEN a
  ELSE INav(cells, cells[a].kb[FirstRef(cells[a].kb)].v.r[1], d - 1)
IMutOk(st, h, d, f) ==
  h \in DOMAIN st.roots /\ INavOk(st.cells, st.roots[h], d) /\
  CanMut(st.cells[INav(st.cells, st.roots[h], d)], f)
(* V.pcache = "setters": only the setters and the item access of the path  *)
(* object itself clear its cached canonical text                           *)
IMutate(V, st, h, d, f) ==
  LET a == INav(st.cells, st.roots[h], d)
  IN [st EXCEPT !.cells[a] = MutHere(@, f),
                !.pcache = IF f \in SetterOps \cup ItemOps
                           THEN {c \in @ : c.addr # a} ELSE @]

(* obj.to_wbem_uri(fmt) of the object at address a.  With V.pcache # "none" *)
(* the canonical text of every instance path object visited (the object    *)
(* and, recursively, the referenced objects: the same method prints them)  *)
(* is taken from / stored in that object's cache.                          *)
PHit(V, st, a) == V.pcache # "none" /\ \E c \in st.pcache : c.addr = a
PGet(st, a) == (CHOOSE c \in st.pcache : c.addr = a).val
RefIdx(o) == {i \in DOMAIN o.kb : o.kb[i].v.t = "reference"}
RECURSIVE SeenVal(_, _, _)
SeenVal(V, st, a) ==             \* the value the canonical printer prints
  IF PHit(V, st, a) THEN PGet(st, a)
  ELSE LET o == st.cells[a]
       IN [o EXCEPT !.kb = [i \in DOMAIN o.kb |->
             IF i \in RefIdx(o)
             THEN KB(o.kb[i].k, Val("reference", "", <<>>,
                                    <<SeenVal(V, st, o.kb[i].v.r[1])>>))
             ELSE o.kb[i]]]
RECURSIVE Visited(_, _, _)
Visited(V, st, a) ==             \* objects that compute (and store) a text
  IF PHit(V, st, a) \/ st.cells[a].kind # "inst" THEN {}
  ELSE {a} \cup UNION {Visited(V, st, st.cells[a].kb[i].v.r[1]) :
                         i \in RefIdx(st.cells[a])}
IPrint(V, st, a, fmt) ==
  IF fmt = "canonical" /\ V.pcache # "none"
  THEN [text |-> PrintU(V, SeenVal(V, st, a), fmt),
        st |-> [st EXCEPT !.pcache = @ \cup
                  {[addr |-> b, val |-> SeenVal(V, st, b)] :
                     b \in Visited(V, st, a)}]]
  ELSE [text |-> PrintU(V, Deref(st.cells, a), fmt), st |-> st]
=============================================================================
