---------------------------- MODULE WbemUriHeap -----------------------------
(***************************************************************************)
(* C07 in a HISTORY of calls.  The laws of WbemUri (round trip, printed    *)
(* URI accepted) are stated for one call; an application makes many calls  *)
(* and modifies the path objects it got back.  The laws must hold at every *)
(* point of such a history:                                                *)
(*                                                                         *)
(*   Parse(text)    returns a FRESH value that depends only on the text    *)
(*   Mutate(h, pl)  the caller modifies a previously returned object h at  *)
(*                  a place pl (the object itself or the reference it      *)
(*                  holds, nested d levels deep: namespace, host, class    *)
(*                  name, a keybinding value, a new keybinding)            *)
(*   Print(h, fmt)  to_wbem_uri of a previously returned object; the text  *)
(*                  becomes available for later Parse steps                *)
(*                                                                         *)
(* Requirement machine (HInit/HFails/HApply, event style; the abstract     *)
(* state is the sequence of returned objects as VALUES (trees) and the     *)
(* registered texts with the path they were printed from):                 *)
(*   RoundTrip/RoundTripEq/PrintedAccepted  as in WbemUri, for every Parse *)
(*                  at any point of the history                            *)
(*   ParseFunctional  a text parsed twice gives the same value             *)
(*   Independent    after every step every object returned so far has      *)
(*                  exactly the value the history of its OWN mutations     *)
(*                  gives it (mutating one object never changes another    *)
(*                  one, a parse or a print changes none)                  *)
(*                                                                         *)
(* Code shape (second half): the heap of the Python process as cells with  *)
(* addresses; a reference keybinding holds the ADDRESS of the nested path  *)
(* object.  from_wbem_uri allocates; with V.cache = "refs" the reference   *)
(* values go through a cache keyed by the reference text (one shared cell  *)
(* for equal text), with "all" every from_wbem_uri call does.  WbemUriHist *)
(* lets TLC decide whether the code shape meets the requirement.           *)
(***************************************************************************)
EXTENDS WbemUri

(* ------------------------------ places --------------------------------- *)
NewNs == <<"b", "sl", "b">>
NewHost == <<"b", "b">>
NewCls == <<"b", "b">>
NewKey == <<"b", "b", "b">>
NewStr == Val("string", "", <<"b">>, <<>>)
MutFields == {"ns", "host", "cls", "kbset", "kbadd"}

(* the reference that is followed: the first reference-typed keybinding;   *)
(* "kbset" assigns to the first keybinding that is not a reference         *)
FirstRef(kb) == LET is == {i \in DOMAIN kb : kb[i].v.t = "reference"}
                IN IF is = {} THEN 0 ELSE MinOf(is)
FirstPlain(kb) == LET is == {i \in DOMAIN kb : kb[i].v.t # "reference"}
                  IN IF is = {} THEN 0 ELSE MinOf(is)
KeyIdx(kb, k) == LET is == {i \in DOMAIN kb : NameEq(kb[i].k, k)}
                 IN IF is = {} THEN 0 ELSE MinOf(is)

(* one object (tree node or heap cell: same record shape)                  *)
CanMut(o, f) == CASE f \in {"ns", "host", "cls"} -> TRUE
                  [] f = "kbset" -> o.kind = "inst" /\ FirstPlain(o.kb) # 0
                  [] f = "kbadd" -> o.kind = "inst"
                  [] OTHER -> FALSE
MutHere(o, f) ==
  CASE f = "ns" -> [o EXCEPT !.hasns = TRUE, !.ns = NewNs]
    [] f = "host" -> [o EXCEPT !.hashost = TRUE, !.host = NewHost]
    [] f = "cls" -> [o EXCEPT !.cls = NewCls]
    [] f = "kbset" -> [o EXCEPT !.kb[FirstPlain(o.kb)].v = NewStr]
    [] f = "kbadd" -> IF KeyIdx(o.kb, NewKey) # 0
                      THEN [o EXCEPT !.kb[KeyIdx(o.kb, NewKey)].v = NewStr]
                      ELSE [o EXCEPT !.kb = Append(@, KB(NewKey, NewStr))]
    [] OTHER -> o

(* values (trees): the place d levels down                                 *)
RECURSIVE TreeHas(_, _, _)
TreeHas(p, d, f) ==
  IF d = 0 THEN CanMut(p, f)
  ELSE p.kind = "inst" /\ FirstRef(p.kb) # 0 /\
       TreeHas(p.kb[FirstRef(p.kb)].v.r[1], d - 1, f)
RECURSIVE TreeMut(_, _, _)
TreeMut(p, d, f) ==
  IF d = 0 THEN MutHere(p, f)
  ELSE [p EXCEPT !.kb[FirstRef(p.kb)].v.r = <<TreeMut(@[1], d - 1, f)>>]

(* ------------------------------ requirement ---------------------------- *)
(* state: heap = the objects returned so far, as values; texts = the       *)
(* registered texts [p: the path the text was printed from, fmt];          *)
(* res[t] = value of the first Parse of text t (NoPath: not parsed yet)    *)
HInit == [heap |-> <<>>, texts |-> <<>>, res |-> <<>>]
HistKinds == {"htext", "hprint", "hparse", "hmutate"}

(* events:                                                                 *)
(*  htext:   p, fmt, printed, text      a path of the universe is printed  *)
(*  hprint:  h, fmt, printed, text, pk, heap    object h is printed        *)
(*  hparse:  t, outcome, q, eq, heap    text t is parsed; q = projection   *)
(*           of the result, heap = projection of ALL returned objects      *)
(*           after the call (the new one last)                             *)
(*  hmutate: h, d, f, heap              the caller modifies object h       *)
HFails(s, e) ==
  CASE e.kind = "htext" -> F("Printed", e.printed = "ok")
    [] e.kind = "hprint" ->
         IF e.h \notin DOMAIN s.heap THEN {"BadHistory"}
         ELSE F("Printed", e.printed = "ok")
              \cup F("Independent", e.heap = s.heap)
    [] e.kind = "hparse" ->
         IF e.t \notin DOMAIN s.texts THEN {"BadHistory"}
         ELSE LET src == s.texts[e.t]
              IN F("ParserTotal", e.outcome \in {"path", "ValueError"})
                 \cup F("PrintedAccepted", e.outcome = "path")
                 \cup (IF e.outcome # "path" THEN {}
                       ELSE (IF src.fmt \in RoundTripFmts
                             THEN F("RoundTrip", PathApprox(src.p, e.q))
                                  \cup F("RoundTripEq",
                                         Lossless(src.p) => e.eq)
                             ELSE {})
                            \cup F("ParseFunctional",
                                   s.res[e.t].kind = "none" \/
                                   s.res[e.t] = e.q)
                            \cup F("Independent",
                                   e.heap = Append(s.heap, e.q)))
    [] e.kind = "hmutate" ->
         IF e.h \notin DOMAIN s.heap THEN {"BadHistory"}
         ELSE IF ~TreeHas(s.heap[e.h], e.d, e.f) THEN {"BadHistory"}
         ELSE F("Independent",
                e.heap = [s.heap EXCEPT ![e.h] = TreeMut(@, e.d, e.f)])
    [] OTHER -> Fails(0, e)

HApply(s, e) ==
  CASE e.kind = "htext" ->
         [s EXCEPT !.texts = Append(@, [p |-> e.p, fmt |-> e.fmt]),
                   !.res = Append(@, NoPath)]
    [] e.kind = "hprint" ->
         [s EXCEPT !.texts = Append(@, [p |-> s.heap[e.h], fmt |-> e.fmt]),
                   !.res = Append(@, NoPath)]
    [] e.kind = "hparse" ->
         [s EXCEPT !.heap = e.heap,
                   !.res[e.t] = IF @.kind = "none" THEN e.q ELSE @]
    [] e.kind = "hmutate" -> [s EXCEPT !.heap = e.heap]
    [] OTHER -> s

(* ------------------------------ code shape ----------------------------- *)
(* process heap: cells[a] = a path object whose reference values hold the  *)
(* address of the nested object (r = <<address>>); cache = {[key, addr]}   *)
(* with key = <<kind, text>>; roots[h] = address of the h-th returned      *)
(* object.                                                                 *)
IState0 == [cells |-> <<>>, cache |-> {}, roots |-> <<>>]

CacheHit(st, key) == \E c \in st.cache : c.key = key
CacheGet(st, key) == (CHOOSE c \in st.cache : c.key = key).addr
(* who goes through the cache: "refs" = the nested from_wbem_uri call of   *)
(* _kbstr_to_cimval only, "all" = every from_wbem_uri call                 *)
UseCache(V, nested) == V.cache = "all" \/ (V.cache = "refs" /\ nested)

(* from_wbem_uri(text) for a text the parser accepts: allocates the result *)
(* (nested references first, in the order of the keybindings in the text)  *)
RECURSIVE AllocU(_, _, _, _, _)
RECURSIVE AllocItems(_, _, _, _, _)
AllocItems(V, st, items, i, acc) ==
  IF i > Len(items) THEN [st |-> st, kb |-> acc]
  ELSE LET v == CimVal(V, items[i]).v
       IN IF v.t # "reference"
          THEN AllocItems(V, st, items, i + 1,
                          Append(acc, KB(items[i].k, v)))
          ELSE LET sub == AllocU(V, st, "inst", Unesc(items[i].body), TRUE)
               IN AllocItems(V, sub.st, items, i + 1,
                             Append(acc, KB(items[i].k,
                                            Val("reference", "", <<>>,
                                                <<sub.addr>>))))
AllocU(V, st, kind, text, nested) ==
  IF UseCache(V, nested) /\ CacheHit(st, <<kind, text>>)
  THEN [st |-> st, addr |-> CacheGet(st, <<kind, text>>)]
  ELSE LET t == StripLf(text)
           h == ParseHead(V, t)
           fold == IF kind = "class" THEN [st |-> st, kb |-> <<>>]
                   ELSE AllocItems(V, st,
                          SplitKbs(V, SubSeq(t, h.next + 1, Len(t)), 1).items,
                          1, <<>>)
           obj == Path(kind, h.hashost, h.host, h.hasns, h.ns, h.cls,
                       Dedupe(fold.kb))
           cells2 == Append(fold.st.cells, obj)
           a == Len(cells2)
       IN [st |-> [fold.st EXCEPT
                     !.cells = cells2,
                     !.cache = IF UseCache(V, nested)
                               THEN @ \cup {[key |-> <<kind, text>>,
                                             addr |-> a]}
                               ELSE @],
           addr |-> a]

IParse(V, st, kind, text) ==
  LET r == AllocU(V, st, kind, text, FALSE)
  IN [r.st EXCEPT !.roots = Append(@, r.addr)]

RECURSIVE Deref(_, _)
Deref(cells, a) ==
  LET o == cells[a]
  IN [o EXCEPT !.kb = [i \in DOMAIN o.kb |->
        IF o.kb[i].v.t = "reference"
        THEN KB(o.kb[i].k, Val("reference", "", <<>>,
                               <<Deref(cells, o.kb[i].v.r[1])>>))
        ELSE o.kb[i]]]
Snapshot(st) == [i \in DOMAIN st.roots |-> Deref(st.cells, st.roots[i])]

(* obj.keybindings[<first reference>]. ... .<field> = <new value>          *)
RECURSIVE INavOk(_, _, _)
INavOk(cells, a, d) ==
  d = 0 \/ (cells[a].kind = "inst" /\ FirstRef(cells[a].kb) # 0 /\
            INavOk(cells, cells[a].kb[FirstRef(cells[a].kb)].v.r[1], d - 1))
RECURSIVE INav(_, _, _)
INav(cells, a, d) ==
  IF d = 0 THEN a
  ELSE INav(cells, cells[a].kb[FirstRef(cells[a].kb)].v.r[1], d - 1)
IMutOk(st, h, d, f) ==
  h \in DOMAIN st.roots /\ INavOk(st.cells, st.roots[h], d) /\
  CanMut(st.cells[INav(st.cells, st.roots[h], d)], f)
IMutate(st, h, d, f) ==
  [st EXCEPT !.cells[INav(st.cells, st.roots[h], d)] = MutHere(@, f)]
=============================================================================
