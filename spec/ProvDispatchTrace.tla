--------------------------- MODULE ProvDispatchTrace ---------------------------
(* X03: events recorded from the real FakedWBEMConnection (recording        *)
(* providers) are judged by the requirement machine ProvDispatch; the       *)
(* code-shaped ProvDispatchImplOps is followed in lock step (drift only).   *)
EXTENDS ProvDispatchImplOps, Json, IOUtils

VARIABLES tid, l, verdict, ts, ti, drifted

ArgEq(a, b) ==
  /\ a.copy = b.copy /\ a.names = b.names /\ a.path = b.path /\ a.ns = b.ns
  /\ a.obj = b.obj /\ a.host = b.host /\ a.meth = b.meth
  /\ a.params = b.params /\ Rng(a.props) = Rng(b.props)

ImplCmp(i, e) ==
  LET rs == ImplStep(i, e)
      r == rs[1] IN
  IF e.op = "Reg"
  THEN << F("ok", e.ok = r.ok) \cup F("exc", e.exc = r.exc)
          \cup F("setup", e.setupcalls = r.setupcalls /\ e.setupreg = r.setupreg)
          \cup F("registry", Rng(e.regdump) = RegDump(rs[2]))
          \cup F("classes", Rng(e.clsdump) = rs[2].cls)
          \cup F("store", Rng(e.dump) = rs[2].store),
          rs[2] >>
  ELSE << F("ok", e.ok = r.ok) \cup F("code", e.code = r.code)
          \cup F("exc", e.exc = r.exc) \cup F("recv", e.recv = r.recv)
          \cup F("arg", e.recv # r.recv \/ e.op = "Create" \/ ArgEq(e.arg, r.arg))
          \cup F("argc", e.recv # r.recv \/ e.op # "Create" \/
                         ArgEq([e.arg EXCEPT !.props = <<>>], r.arg))
          \cup F("result", ~(e.ok /\ r.ok) \/
                   (e.rk = r.rk /\ e.rv = r.rv /\ Rng(e.outs) = Rng(r.outs)))
          \cup F("store", Rng(e.dump) = rs[2].store),
          rs[2] >>

TraceBatch == JsonDeserialize(IOEnv.TRACE_FILE).traces

TK == INSTANCE TraceKit WITH
        TTraces <- TraceBatch,
        TInit0 <- InitState, TFails <- Fails, TApply <- Apply,
        TInv <- WellFormed,
        TImpl0 <- InitImpl, TImplStep <- ImplCmp
TSpec == TK!TSpec
=============================================================================
