\* The repaired design: CR in character data is written as &#13;.
\* All strings of <= 5 symbols over the 13-class alphabet at depth 0, both
\* modes, plus all strings of <= 4 symbols at embedding depth 0..3
\* (see XmlTextMCFixedDeep.cfg).
SPECIFICATION Spec
CONSTANTS
  Alphabet <- Cls
  MaxLen = 5
  Depths = {0}
  Modes = {"entity", "cdata"}
  V <- CrFixed
  AttrAll = FALSE
INVARIANT RoundTrip
INVARIANT AttrRoundTrip
INVARIANT Attr0
INVARIANT WriterTotal
INVARIANT Stable
CHECK_DEADLOCK FALSE
