--------------------------- MODULE ListenerHttpReq ---------------------------
(***************************************************************************)
(* C17 - requirement machine (event style, pure operators).                *)
(*                                                                         *)
(* "For any HTTP request the listener sends exactly one syntactically      *)
(*  valid HTTP response: 200 with a CIM-XML export response (success, or    *)
(*  ERROR for an unknown export method or wrong parameters), or a 4xx/5xx   *)
(*  status with a CIMError header for malformed XML, unsupported versions   *)
(*  or header mismatches, and no header line contains raw CR or LF taken    *)
(*  from request-derived text.  No request terminates the listener, leaks   *)
(*  a handler exception as a dropped connection, or prevents later valid    *)
(*  indications from being accepted and delivered."                         *)
(*                                                                         *)
(* A request is a record of CLASSES (one per dimension the statement's      *)
(* quantifier names); an event is <request class, observation of what came  *)
(* back on the socket + callback log>.  Fails(s, e) = names of the clauses  *)
(* of the statement that the observation violates.  Wherever the statement  *)
(* leaves the outcome open the machine accepts every choice: a request with *)
(* several defects may be answered as any one of them demands (the          *)
(* statement fixes no precedence), the exact 4xx/5xx code is free, the      *)
(* message texts are free, bodies of 4xx/5xx answers are free.              *)
(*                                                                         *)
(* Besides the body classes that are ill-formed, of a wrong version or of   *)
(* a wrong element structure there are bodies whose only fault is ONE       *)
(* LEXEME: the text at an attribute / value position of the indication      *)
(* that the reader has to convert (a type name, a number, a boolean word,   *)
(* a datetime, ...) is not in the language of that position.  They are      *)
(* classified by (position, lexeme class), see LexAt.  The statement        *)
(* promises for them what it promises for every request - exactly one       *)
(* well-formed response, no dropped connection -; whether the answer is an  *)
(* export ERROR ("wrong parameters"), a 4xx/5xx with CIMError ("malformed   *)
(* XML") or, from a lenient reader, success is left open.  Lexemes that ARE *)
(* in the language by every reading (Sure) make a valid indication.         *)
(*                                                                         *)
(* Environment of a request (e.env): the listener's indication queue has   *)
(* capacity qcap (0 = unbounded); `drained` = the tester has SEEN, before   *)
(* it sent this request, that every indication accepted so far was         *)
(* delivered, that the callback is not being held and that no earlier      *)
(* connection is still open.  The machine counts the requests since the    *)
(* last drained point that may have put an indication into the queue       *)
(* (`held`): only when held >= qcap can the queue be full, and only then    *)
(* may a VALID indication be refused with an export ERROR ("enqueue -> 200  *)
(* success | ERROR(FAILED) if full", DESIGN 4-C17) - still as exactly one   *)
(* well-formed response.  Everywhere else a valid indication must be       *)
(* accepted, also after a queue-full episode.                               *)
(***************************************************************************)
EXTENDS Naturals, Sequences, FiniteSets, TLC

F(name, holds) == IF holds THEN {} ELSE {name}

(* ---- class alphabets ---------------------------------------------------*)
Verbs     == {"POST", "known", "unknown"}     \* known: GET HEAD PUT DELETE ...
HdrVals   == {"absent", "ok", "bad", "fold"}  \* fold: mismatching value that
                                              \* is line-folded (obs-fold)
RangeVals == {"absent", "bad", "fold"}        \* Accept-Range: any presence
                                              \* is a mismatch (DSP0200)
CLens     == {"absent", "ok", "short", "long", "nonnum", "negone", "neg",
              "huge"}
Bodies    == {"validExport", "illformedXml", "badUtf8",
              "wrongDtdVersion", "wrongDtdVersionU",
              "wrongProtocolVersion", "wrongProtocolVersionU",
              "wrongCimVersion", "wrongCimVersionU",
              "wrongElement", "unknownMethod", "missingParam", "dupParam",
              "nullParam", "nonInstance", "empty"}
    \* ...U : the offending version text contains characters outside Latin-1
    \* (a 17th body class, "lexeme", exists only together with a position and
    \* a lexeme class, see below)

(* ---- lexeme classes at the positions the CIM-XML reader CONVERTS --------*)
(* A body may be well-formed and follow the element structure of the DTD    *)
(* and still carry, at one attribute or value position whose text the      *)
(* reader converts (type names, numbers, booleans, datetimes, char16,       *)
(* ARRAYSIZE, EmbeddedObject, embedded object text), a lexeme outside the   *)
(* language of that position.  lpos = the position, lex = the class of the *)
(* lexeme; "none"/"none" for all other requests.  The alphabets are built  *)
(* from the grammar of each language by the usual case distinction: a       *)
(* member of the language in a less common spelling (Sure), a member with   *)
(* leading / trailing extra characters (name characters, blanks, a line     *)
(* terminator), a truncated member, a member of a neighbouring language,    *)
(* empty, out of range / huge, characters outside Latin-1.                  *)
TypeLex == {"unknown", "numSuffix", "numTrailSp", "numTrailNl", "numPrefix",
            "numLeadSp", "otherSuffix", "badWidth", "upper", "empty",
            "reference", "nonLatin"}
    \* num... : the name of a numeric CIM type (uint8 .. real64) plus extra
    \* characters: Suffix = name characters after it, TrailSp = blanks / TAB /
    \* CR after it, TrailNl = exactly one LF after it, Prefix / LeadSp = the
    \* same before it; otherSuffix: string/boolean/datetime/char16 + characters
NumLex == {"hex", "hexPlus", "decPlus", "hexSuffix", "hexPrefix",
           "hexNoDigits", "hexHuge", "decSuffix", "decPrefix", "empty",
           "innerSpace", "word", "doubleSign", "outOfRange", "hugeDec",
           "hugeDecX",   \* more digits than Python's int() converts (4300)
           "fraction", "bareDot", "exponent", "hugeExp", "nan", "inf",
           "underscore",
           "uniDigits", "otherBase", "leadingZero", "padded", "nlInside",
           "nonLatin"}
BoolLex == {"upper", "padded", "empty", "word", "digit", "suffix", "prefix",
            "abbrev", "two", "nonLatin"}
DtLex == {"interval", "short", "long", "empty", "suffix", "prefix",
          "badMonth", "badDay", "badMinute", "badSep", "noSign", "letters",
          "uniDigits", "hugeOffset", "asterisks", "nonLatin"}
C16Lex == {"empty", "two", "astral", "blank"}
ASizeLex == {"word", "empty", "negative", "hex", "fraction", "huge", "hugeX",
             "suffix", "padded", "underscore", "uniDigits", "zero"}
EmbAttrLex == {"unknown", "upper", "suffix", "padded", "empty", "boolWord",
               "nonLatin"}
EmbXmlLex == {"notXml", "illformed", "empty", "blank", "otherElement",
              "twoRoots", "missingAttr", "badChild"}
VTypeLex == {"unknown", "suffix", "upper", "empty", "nonLatin"}

(* ---- lexemes at the positions the handler COMPARES or ECHOES -------------*)
(* Besides the converted positions there are the strings of the request the *)
(* handler compares with a fixed NAME (the export method name, the          *)
(* parameter name, the header values) and the strings it ECHOES into its    *)
(* answer (MESSAGE/@ID and EXPMETHODCALL/@NAME into the export response,    *)
(* the three version texts into CIMErrorDetails).                           *)
(* CaseLex: the expected name in another lexical case (CIM names and media  *)
(* types are case-insensitive, so a handler may accept or refuse them).     *)
(* CharLex: the text contains a character of one class of the XML 1.0 Char  *)
(* production (every one of them may stand in an attribute value of a       *)
(* well-formed request, literally or as a character reference):             *)
(*   del U+007F | c1 U+0080-84,86-9F (XML 1.1 RestrictedChar, legal in 1.0) *)
(*   nel U+0085 | latin1 U+00A0-FF | bmp | lsep U+2028/2029 | fffd U+FFFD   *)
(*   nonchar U+FDD0-FDEF, U+nFFFE/F (discouraged, legal) | astral           *)
CaseLex == {"upper", "lower", "mixed"}
CharLex == {"del", "c1", "nel", "latin1", "bmp", "lsep", "fffd", "nonchar",
            "astral"}
(* nesting depth of the value structure of the indication: embedded         *)
(* instances (each level is a string-valued property holding the escaped    *)
(* XML of the next one; the size grows with the square of the depth, so     *)
(* only up to some tens) and reference-valued keys (INSTANCENAME /          *)
(* KEYBINDING / VALUE.REFERENCE / INSTANCENAME ..., linear size)            *)
DepthLex == {"few", "tens", "hundreds", "thousands"}
    \* 2-8 | 20-60 | 200-400 | 1000-5000

(* position -> lexeme classes that can stand there                         *)
LexAt ==
  [ \* TYPE of an element that has a value to convert
    propType |-> TypeLex, arrType |-> TypeLex, qualType |-> TypeLex,
    keyType |-> TypeLex,          \* KEYVALUE in a reference property
    embPropType |-> TypeLex,      \* PROPERTY of an embedded instance
    clsPropType |-> TypeLex,      \* PROPERTY (with default) of an embedded class
    \* TYPE of an element without a value
    propTypeNull |-> TypeLex, clsMethodType |-> TypeLex,
    clsParamType |-> TypeLex,
    keyValueType |-> VTypeLex,
    \* values
    intValue |-> NumLex, arrValue |-> NumLex, qualValue |-> NumLex,
    embPropValue |-> NumLex,
    realValue |-> NumLex \ {"outOfRange"},
    keyNumValue |-> NumLex \ {"outOfRange"},  \* KEYVALUE VALUETYPE=numeric, no TYPE
    boolValue |-> BoolLex,
    boolAttr |-> BoolLex,   \* PROPAGATED OVERRIDABLE TOSUBCLASS TOINSTANCE TRANSLATABLE
    dtValue |-> DtLex, char16Value |-> C16Lex, arraySize |-> ASizeLex,
    embAttr |-> EmbAttrLex,                     \* on a string property
    embAttrNum |-> EmbAttrLex \cup {"validWord"}, \* on a numeric property
    embValue |-> EmbXmlLex, embArrValue |-> EmbXmlLex,
    embDepth |-> {"few", "tens"}, refDepth |-> DepthLex,
    \* echoed / compared strings outside the indication instance
    msgId |-> CharLex,                       \* MESSAGE/@ID
    methName |-> CharLex \cup CaseLex,       \* EXPMETHODCALL/@NAME
    paramName |-> CaseLex,                   \* EXPPARAMVALUE/@NAME
    dtdVer |-> CharLex, cimVer |-> CharLex, protoVer |-> CharLex,
    \* header values the handler compares: an admissible value in another
    \* lexical case (the header dimension of such a class is "ok")
    acceptVal |-> {"upper", "mixed"}, charsetVal |-> {"upper", "mixed"},
    ctypeVal |-> {"upper", "mixed"}, cencVal |-> {"upper", "mixed"} ]
LexPositions == DOMAIN LexAt
HdrPositions == {"acceptVal", "charsetVal", "ctypeVal", "cencVal"}
AllLexemes == UNION {LexAt[p] : p \in LexPositions}

(* members of the language of the position by every reading of DSP0201 /   *)
(* DSP0004 (hexadecimal and explicitly signed integers, upper-case boolean  *)
(* words, intervals, reals with fraction / exponent): such a request is a   *)
(* VALID indication                                                         *)
IntPositions == {"intValue", "arrValue", "qualValue", "embPropValue"}
Sure(p, x) ==
  \/ p \in IntPositions /\ x \in {"hex", "hexPlus", "decPlus"}
  \/ p = "keyNumValue" /\ x \in {"hex", "decPlus"}
  \/ p = "realValue" /\ x \in {"fraction", "exponent"}
  \/ p \in {"boolValue", "boolAttr"} /\ x = "upper"
  \/ p = "dtValue" /\ x = "interval"
  \* a message id is an arbitrary string: every XML character may occur
  \/ p = "msgId"
  \* "arbitrary indication instances": a handful of nested embedded
  \* instances / reference keys (deeper nesting: any ONE well-formed answer,
  \* see "lexeme" - the statement does not forbid a depth limit)
  \/ p \in {"embDepth", "refDepth"} /\ x = "few"

Requests == [verb : Verbs, accept : HdrVals, charset : HdrVals,
             range : RangeVals, ctype : HdrVals, cenc : HdrVals,
             clen : CLens, body : Bodies, lpos : {"none"}, lex : {"none"}]

(* body class of a request whose only peculiarity is the lexeme: a method  *)
(* name that is not ExportIndication by any reading is an unknown method    *)
(* (export ERROR demanded), a version text with such a character is a      *)
(* wrong version (4xx/5xx + CIMError demanded); a NAME in another lexical   *)
(* case, a deep nesting and everything else: "lexeme"                       *)
LexBodyOf(p, x) ==
  CASE Sure(p, x) -> "validExport"
    [] p = "methName" /\ x \in CharLex -> "unknownMethod"
    [] p = "dtdVer" -> "wrongDtdVersion"
    [] p = "cimVer" -> "wrongCimVersion"
    [] p = "protoVer" -> "wrongProtocolVersion"
    [] OTHER -> "lexeme"
LexRequestType ==
  [verb : Verbs, accept : HdrVals, charset : HdrVals, range : RangeVals,
   ctype : HdrVals, cenc : HdrVals, clen : CLens,
   body : {"validExport", "lexeme", "unknownMethod", "wrongDtdVersion",
           "wrongCimVersion", "wrongProtocolVersion"},
   lpos : LexPositions, lex : AllLexemes]
(* a case variant of a header value presupposes that the header is there   *)
(* with an admissible value                                                 *)
HdrPosConsistent(c) ==
  /\ c.lpos = "acceptVal" => c.accept = "ok"
  /\ c.lpos = "charsetVal" => c.charset = "ok"
  /\ c.lpos = "ctypeVal" => c.ctype = "ok"
  /\ c.lpos = "cencVal" => c.cenc = "ok"
KnownRequest(c) ==
  \/ c \in Requests
  \/ /\ c \in LexRequestType
     /\ c.lex \in LexAt[c.lpos]
     /\ c.body = LexBodyOf(c.lpos, c.lex)
     /\ HdrPosConsistent(c)

ValidReq == [verb |-> "POST", accept |-> "ok", charset |-> "ok",
             range |-> "absent", ctype |-> "ok", cenc |-> "ok",
             clen |-> "ok", body |-> "validExport",
             lpos |-> "none", lex |-> "none"]

(* ---- which defects does a request class have ---------------------------*)
HdrMismatch(c) ==
  \/ c.accept \in {"bad", "fold"}
  \/ c.charset \in {"bad", "fold"}
  \/ c.range # "absent"
  \/ c.ctype \in {"absent", "bad", "fold"}     \* Content-Type is required
  \/ c.cenc \in {"bad", "fold"}

Malformed == {"illformedXml", "badUtf8", "wrongElement", "empty"}
Versions  == {"wrongDtdVersion", "wrongDtdVersionU", "wrongProtocolVersion",
              "wrongProtocolVersionU", "wrongCimVersion", "wrongCimVersionU"}
MethParam == {"unknownMethod", "missingParam", "nullParam"}

Defects(c) ==
     (IF c.verb # "POST" THEN {"verb"} ELSE {})
  \cup (IF HdrMismatch(c) THEN {"hdr"} ELSE {})
  \cup (IF c.clen \in {"nonnum", "negone", "neg"} THEN {"clenBad"} ELSE {})
  \cup (IF c.clen \in {"long", "huge"} THEN {"clenWait"} ELSE {})
  \cup (IF c.clen \in {"absent", "short"} THEN {"truncated"} ELSE {})
  \cup (IF c.body \in Malformed THEN {"malformed"} ELSE {})
  \cup (IF c.body \in Versions THEN {"version"} ELSE {})
  \cup (IF c.body \in MethParam THEN {"methparam"} ELSE {})
  \cup (IF c.body = "nonInstance" THEN {"noninst"} ELSE {})
  \cup (IF c.body = "dupParam" THEN {"dup"} ELSE {})
  \cup (IF c.body = "lexeme" THEN {"lexeme"} ELSE {})

IsValid(c) == Defects(c) = {}

(* ---- observation predicates --------------------------------------------*)
Is4xx5xx(o) == o.status >= 400 /\ o.status <= 599
ExportChain == <<"CIM", "MESSAGE", "SIMPLEEXPRSP", "EXPMETHODRESPONSE">>
ExportBodyOK(o) ==
  /\ o.bodykind = "xml" /\ o.bodywf /\ o.attrsok
  /\ o.chain = ExportChain
  /\ o.leaf \in {<< >>, <<"IRETURNVALUE">>, <<"ERROR">>}
IsError(o)   == o.leaf = <<"ERROR">>
IsSuccess(o) == o.leaf \in {<< >>, <<"IRETURNVALUE">>}

(* what each defect admits: <<status family ok, complete answer ok>>       *)
Acc(d, o) ==
  CASE d = "verb"      -> <<Is4xx5xx(o), Is4xx5xx(o)>>
    [] d = "hdr"       -> <<Is4xx5xx(o), Is4xx5xx(o) /\ o.cimerror>>
    [] d = "malformed" -> <<Is4xx5xx(o), Is4xx5xx(o) /\ o.cimerror>>
    [] d = "version"   -> <<Is4xx5xx(o), Is4xx5xx(o) /\ o.cimerror>>
    [] d = "truncated" -> <<Is4xx5xx(o), Is4xx5xx(o)>>
    [] d = "clenBad"   -> <<Is4xx5xx(o) \/ o.status = 200,
                            Is4xx5xx(o) \/ o.status = 200>>
    [] d = "clenWait"  -> <<Is4xx5xx(o) \/ o.status = 200,
                            Is4xx5xx(o) \/ o.status = 200>>
    [] d = "methparam" -> <<o.status = 200, o.status = 200 /\ IsError(o)>>
    [] d = "noninst"   -> <<o.status = 200 \/ Is4xx5xx(o),
                            \/ o.status = 200 /\ IsError(o)
                            \/ Is4xx5xx(o) /\ o.cimerror>>
    [] d = "dup"       -> <<o.status = 200 \/ Is4xx5xx(o),
                            \/ o.status = 200
                            \/ Is4xx5xx(o) /\ o.cimerror>>
    \* a lexeme outside the language of its position: the statement names
    \* "wrong parameters" (200/ERROR) and "malformed XML" (4xx/5xx +
    \* CIMError); a lenient reader that converts it anyway (success) is not
    \* excluded either - but it is ONE well-formed answer, never a dropped
    \* connection
    [] d = "lexeme"    -> <<o.status = 200 \/ Is4xx5xx(o),
                            \/ o.status = 200
                            \/ Is4xx5xx(o) /\ o.cimerror>>

(* clauses about ONE response that did arrive; qfull: the indication queue *)
(* may be full (see MayBeFull below)                                       *)
ResponseFails(c, o, qfull) ==
  LET D == Defects(c)
      famOK == IF D = {} THEN o.status = 200
               ELSE \E d \in D : Acc(d, o)[1]
      allOK == IF D = {} THEN o.status = 200 /\
                              (IsSuccess(o) \/ (qfull /\ IsError(o)))
               ELSE \E d \in D : Acc(d, o)[2]
  IN
     F("ExactlyOneResponse.many", o.nresp = 1)
  \cup F("ValidStatusLine", o.lineok)
  \cup F("ValidHeaderSyntax", o.hdrsyn /\ ~o.rawnl)
  \cup F("ValidBodyFraming", o.framing)
  \cup F("NoRequestDerivedCRLF", ~o.derived)
  \cup F("StatusAdmissible", famOK)
  \cup (IF famOK /\ ~allOK
        THEN (IF o.status = 200 THEN {"ExportResult"} ELSE {"CIMErrorHeader"})
        ELSE {})
  \cup (IF o.status = 200 /\ o.lineok
        THEN F("ExportResponseBody", ExportBodyOK(o))
             \cup F("MessageIdEchoed", ~ExportBodyOK(o) \/ o.respid = o.reqid)
        ELSE {})
  \cup (IF D = {} /\ o.status = 200 /\ ExportBodyOK(o) /\ IsSuccess(o)
        THEN F("Delivered", o.ndeliv >= 1) ELSE {})

(* outcome of the connection: response | closed | waiting | hang | garbage *)
(*  closed  : the server closed the connection without sending a byte      *)
(*  waiting : no byte so far, handler blocked reading from the connection  *)
(*  hang    : no byte within the watchdog time, peer still connected       *)
(*  garbage : bytes that do not start with an HTTP status line             *)
Outcomes == {"response", "closed", "waiting", "hang", "garbage"}

RequestFails(c, o, qfull) ==
  CASE o.outcome = "response" -> ResponseFails(c, o, qfull)
    [] o.outcome = "closed"   -> {"NoDroppedConnection"}
    [] o.outcome = "waiting"  -> F("ExactlyOneResponse.waits",
                                   c.clen \in {"long", "huge"})
    [] o.outcome = "hang"     -> F("ExactlyOneResponse.none",
                                   c.clen \in {"long", "huge"})
    [] o.outcome = "garbage"  -> {"ValidStatusLine"}
    [] OTHER                  -> {"UnclassifiedOutcome"}

(* ---- the machine --------------------------------------------------------*)
(* state: n    = number of requests the listener has seen in this history, *)
(*        held = number of those since the last drained point whose answer  *)
(*               does not exclude that an indication went into the queue    *)
InitState == [n |-> 0, held |-> 0]

(* the answer excludes an enqueue only if it is an HTTP error or an export *)
(* ERROR; everything else (success, no answer yet, dropped, garbage) may   *)
(* stand for an indication that sits in the queue                          *)
MayQueue(o) == ~(o.outcome = "response" /\
                 (Is4xx5xx(o) \/ (o.status = 200 /\ IsError(o))))

HeldBefore(s, e) == IF e.env.drained THEN 0 ELSE s.held
MayBeFull(s, e)  == e.env.qcap > 0 /\ HeldBefore(s, e) >= e.env.qcap

Fails(s, e) ==
  IF e.kind = "req"
  THEN LET f == F("KnownRequestClass", KnownRequest(e.cls))
                \cup (IF KnownRequest(e.cls)
                      THEN RequestFails(e.cls, e.obs, MayBeFull(s, e))
                      ELSE {})
       IN f \cup (IF f # {} /\ KnownRequest(e.cls) /\ IsValid(e.cls) /\ s.n > 0
                  THEN {"SurvivesEarlierRequests"} ELSE {})
  ELSE IF e.kind = "end"
  THEN F("ListenerAlive", e.alive.server /\ e.alive.callback)
  ELSE {"KnownEventKind"}

Apply(s, e) ==
  IF e.kind = "req"
  THEN [n |-> s.n + 1,
        held |-> HeldBefore(s, e) + (IF MayQueue(e.obs) THEN 1 ELSE 0)]
  ELSE s
=============================================================================
