\* bounded indication queue (max_ind_queue_size = 1) and a tester that may hold the callback:
\* all histories of 4 requests over the plain queue alphabet (5); the tester scripts that force the
\* queue.Full branch are printed for the harness
SPECIFICATION Spec
CONSTANTS
  MaxReq = 4
  Alphabet <- QueuePlain
  San = TRUE
  ClChk = TRUE
  Threaded = TRUE
  FinalValid = FALSE
  QCap = 1
  Gating = TRUE
  QfRet = TRUE
  Echo = "xml10"
  PName = "exact"
  Deep = "caught"
  LexG = "full"
INVARIANT InvAllClauses
INVARIANT InvNeverStuck
INVARIANT InvDelivered
INVARIANT InvNoSpurious
INVARIANT InvQueueBound
INVARIANT InvEmitScripts
CHECK_DEADLOCK FALSE
