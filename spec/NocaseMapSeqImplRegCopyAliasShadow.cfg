SPECIFICATION Spec
CONSTANTS
  PinnedRemove = FALSE
  PinnedIterTwice = FALSE
  PinnedSetSliceIter = FALSE
  PinnedPickleLow = FALSE
  LowerFold = FALSE
  ReverseKeepsShadow = FALSE
  CopyAliasShadow = TRUE
  InsertAppends = FALSE
  EszBase = 2
  NB = 2
  NV = 2
  MaxLen = 3
  MaxXs = 1
  MaxXsAlt = 1
  IdxU <- IdxSmall
  GenDepth = 0
  GenMax = 0
INVARIANT ImplRefinesReq
INVARIANT MappingHolds
CONSTRAINT LenConstraint
CHECK_DEADLOCK FALSE
