SPECIFICATION FairSpec
CONSTANTS
  NObj = 2
  Ids = {1, 2}
  Nss = {1}
  Maxes <- MaxesSmall
  Kinds = {1, 2}
  Toggles = FALSE
  Srvs = {1}
  Ots <- OtsOne
  Coes <- CoesOne
INVARIANT Inv_NothingTwice
INVARIANT Inv_NothingLost
INVARIANT Inv_ExactlyTraditional
INVARIANT Inv_ClosedNotOpen
INVARIANT Inv_OpenWereIssued
PROPERTY Terminates
CHECK_DEADLOCK FALSE
