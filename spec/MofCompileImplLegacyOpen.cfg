\* regression config: _compile_file opens first and handles only FileNotFoundError: an include name with NUL / a lone surrogate (must violate ImplRefinesReq: ValueError / UnicodeEncodeError)
SPECIFICATION Spec
CONSTANTS
  MaxProd = 1
  MaxDepth = 6
  OnlyKinds = {"include"}
  IncludeGuard = TRUE
  NsNoneCheck = TRUE
  HexBounds = TRUE
  CtxBounds = TRUE
  ValueWrapped = TRUE
  RepoWrapped = TRUE
  EmbFinally = TRUE
  RestoreOnReturn = TRUE
  EmbRestoreAll = TRUE
  SuperCheckFirst = TRUE
  AncestryWalk = TRUE
  GuardCanonical = TRUE
  RegisterAfterCreate = TRUE
  NsCachesInit = TRUE
  EmbNullChecked = TRUE
  OverflowWrapped = TRUE
  InstOffsetAll = TRUE
  OpenPrecheck = FALSE
  EmbLexerClone = TRUE
INVARIANT TypeOK
INVARIANT ImplRefinesReq
INVARIANT PositionFileOK
INVARIANT Reusable

CHECK_DEADLOCK FALSE
