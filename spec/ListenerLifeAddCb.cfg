\* pinned code shape, HTTP only: add_callback (new and duplicate) in every position of programs of 2 calls + stop
SPECIFICATION Spec
CONSTANTS
  Cfg = {"http"}
  Envs <- EnvsHttp
  Senders = {"s1"}
  NInd = 2
  MaxQ = 1
  MaxOps = 2
  InitCbs <- Cbs1
  AddCbs = {1, 2}
  FailCleanup = "code"
  CloseOnCertFail = FALSE
  ClearRobust = FALSE
  StopGuard = TRUE
  DupCheck = TRUE
  FailStopsDelivery = TRUE
INVARIANT StartFailHolds
INVARIANT OtherHolds
PROPERTY MainTerminates
CHECK_DEADLOCK FALSE
