------------------------------ MODULE AssocImpl ------------------------------
(***************************************************************************)
(* Code-shaped machine for C13.  A repository is built by CreateInstance   *)
(* of association instances over a fixed set of node instances             *)
(* (InstanceWriteProvider.CreateInstance + create_multi_namespace_instance:*)
(* one copy in the namespace of the call and one in the namespace of every *)
(* referenced end).  In every reachable repository TLC compares the        *)
(* transcribed two-phase traversal (AssocImplOps) with the declarative     *)
(* requirement of Assoc.tla for EVERY source node and EVERY filter tuple,  *)
(* and checks the requirement's own laws (symmetry, filter monotonicity).  *)
(*                                                                         *)
(* NoShadow = TRUE is a regression switch: CreateInstance stores only the  *)
(* copy in the namespace of the call.                                      *)
(***************************************************************************)
EXTENDS AssocImplOps, SequencesExt

CONSTANTS NodeU,       \* sequence of node records [ns, cls, sv]
          MaxAssoc,    \* max number of association instances
          CreateNs,    \* namespaces in which CreateInstance is called
          ClsU,        \* association classes that are instantiated
          AcU, RcU, RlU,  \* filter tokens quantified over ("" = not given)
          NoShadow,
          GenDepth     \* > 0: record the calls (behaviour emission)

(*------------------- universes used by the configurations ----------------*)
Nd(ns, c, sv) == [ns |-> ns, cls |-> c, sv |-> sv]
NodeU4 == <<Nd(1, "N", 1), Nd(1, "NS", 2), Nd(1, "M", 3), Nd(2, "M", 4)>>
NodeU5 == <<Nd(1, "N", 1), Nd(1, "NS", 2), Nd(1, "M", 3), Nd(2, "M", 4),
            Nd(2, "N", 5)>>
NodeU7 == <<Nd(1, "N", 1), Nd(1, "NS", 2), Nd(1, "M", 3), Nd(2, "M", 4),
            Nd(2, "N", 5), Nd(1, "N", 6), Nd(2, "NS", 7)>>
AcFull == {"", "AB", "ABS", "AT", "AL", "ZZ", "N"}
RcFull == {"", "N", "NS", "M", "ZZ", "AB"}
RlFull == {"", "r1", "r2", "a", "b", "c", "zz"}
AcSmall == {"", "AB", "ABS", "AT", "AL", "ZZ"}
RcSmall == {"", "N", "NS", "M"}
RlSmall == {"", "r1", "r2", "a", "b", "c"}

VARIABLES store, hist
vars == <<store, hist>>

Nodes == DOMAIN NodeU
G == [nodes |-> NodeU, assocs |-> SetToSeq(store)]
Groups == {a.g : a \in store}

EndChoices(c, p) ==
  {i \in Nodes : NodeU[i].cls \in Subtree(RefClass(c)[p])}
  \cup (IF Optional(c) THEN {0} ELSE {})
EndTuples(c) ==
  IF Len(Roles(c)) = 2
  THEN {<<e1, e2>> : e1 \in EndChoices(c, 1), e2 \in EndChoices(c, 2)}
  ELSE {<<e1, e2, e3>> : e1 \in EndChoices(c, 1), e2 \in EndChoices(c, 2),
                         e3 \in EndChoices(c, 3)}

Create(c, ends, ns) ==
  LET g == <<c, ends>>       \* class + keybindings (for AL: stands for id)
      homes == IF NoShadow THEN {ns}
               ELSE {ns} \cup {NodeU[ends[p]].ns :
                                  p \in {q \in DOMAIN ends : ends[q] # 0}} IN
  /\ Cardinality(Groups) < MaxAssoc
  /\ g \notin Groups                                  \* else ALREADY_EXISTS
  /\ store' = store \cup {[cls |-> c, ends |-> ends, ns |-> h, g |-> g] :
                            h \in homes}
  /\ hist' = IF GenDepth > 0
             THEN Append(hist, [cls |-> c, ends |-> ends, ns |-> ns])
             ELSE hist

Init == store = {} /\ hist = <<>>
Next == \E c \in ClsU, ns \in CreateNs : \E ends \in EndTuples(c) :
           Create(c, ends, ns)
Spec == Init /\ [][Next]_vars

(*----------------------- Impl = declarative ------------------------------*)
(* g = the graph of the current state (evaluated once per invariant)       *)
AssocAgree(g, near, op, x, ac, rc, ro, rr) ==
  LET r == ImplAssocOp(op, g, x, ac, rc, ro, rr) IN
  IF r.k = "ok"
  THEN r.S \ {x} = AssocsVia(g, near, x, ac, rc, ro, rr) \ {x}
  ELSE r.k = "err4" /\ AqMayErr(ac, rc, ro, rr)

RefAgree(g, near, x, rc, ro) ==
  LET r == ImplRefOp(g, x, rc, ro) IN
  IF r.k = "ok" THEN {g.assocs[j].g : j \in r.S} = RefsVia(near, x, rc, ro)
  ELSE r.k = "err4" /\ RqMayErr(rc, ro)

(* AssociatorNames and Associators are the same call in the code; the      *)
(* second one is only evaluated when the regression switch separates them  *)
OpsU == IF SwapIn = "" THEN {"AN"} ELSE {"AN", "A"}

(* SwapIn = "": phase 1 depends on (AssocClass, Role) only; it is evaluated *)
(* once per pair and shared by all (ResultClass, ResultRole) (same values   *)
(* as ImplAssocOp, fewer TLC evaluations)                                   *)
ImplEqualsDecl ==
  LET g == G IN
  \A x \in Nodes :
     LET near == Touching(g, x) IN
     /\ IF SwapIn = ""
        THEN \A ac \in AcU, ro \in RlU :
               LET refs == ImplRefPaths(g, x, ac, ro)
                   nearac == {b \in near : ClassOk(b.cls, ac)} IN
               \A rc \in RcU, rr \in RlU :
                  IF BadFilterClass(ac, rc) THEN AqMayErr(ac, rc, ro, rr)
                  ELSE ImplPhase2(g, x, rc, rr, refs) \ {x}
                         = AssocsVia(g, nearac, x, "", rc, ro, rr) \ {x}
        ELSE \A ac \in AcU, rc \in RcU, ro \in RlU, rr \in RlU, op \in OpsU :
               AssocAgree(g, near, op, x, ac, rc, ro, rr)
     /\ \A rc \in AcU, ro \in RlU : RefAgree(g, near, x, rc, ro)

(*--------------- laws of the requirement itself --------------------------*)
DeclSymmetric ==
  LET g == G IN
  \A x \in Nodes, y \in Nodes : \A ac \in AcU, ro \in RlU, rr \in RlU :
     (y \in Assocs(g, x, ac, "", ro, rr)) <=> (x \in Assocs(g, y, ac, "", rr, ro))

DeclMonotone ==
  LET g == G IN
  \A x \in Nodes :
     LET near == Touching(g, x) IN
     \A ac \in AcU, rc \in RcU, ro \in RlU, rr \in RlU :
        LET S == AssocsVia(g, near, x, ac, rc, ro, rr) IN
        /\ S \subseteq AssocsVia(g, near, x, "", rc, ro, rr)
        /\ S \subseteq AssocsVia(g, near, x, ac, "", ro, rr)
        /\ S \subseteq AssocsVia(g, near, x, ac, rc, "", rr)
        /\ S \subseteq AssocsVia(g, near, x, ac, rc, ro, "")
        /\ RefsVia(near, x, ac, ro) \subseteq RefsVia(near, x, "", ro)
        /\ RefsVia(near, x, ac, ro) \subseteq RefsVia(near, x, ac, "")

(* class level (state independent; evaluated in the initial state only):   *)
(* the Names and the full operation of the code-shaped machine agree       *)
ClassNamesEqFull ==
  store # {} \/
  \A c \in NodeClasses, ex \in BOOLEAN :
     \A ac \in AcU, rc \in RcU, ro \in RlU, rr \in RlU :
        ImplClassAssocOp("AN", c, ex, ac, rc, ro, rr)
           = ImplClassAssocOp("A", c, ex, ac, rc, ro, rr)

GenConstraint == GenDepth = 0 \/ Len(hist) <= GenDepth
=============================================================================
