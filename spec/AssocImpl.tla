------------------------------ MODULE AssocImpl ------------------------------
(***************************************************************************)
(* Code-shaped machine for C13.  A repository is built by CreateInstance   *)
(* of association instances over a fixed set of node instances             *)
(* (InstanceWriteProvider.CreateInstance + create_multi_namespace_instance:*)
(* one copy in the namespace of the call and one in the namespace of every *)
(* referenced end) and by ModifyInstance of the non-reference property     *)
(* `note` of a stored association instance (modify_multi_namespace_        *)
(* instance: every copy is replaced).  In every reachable repository TLC   *)
(* compares the transcribed two-phase traversal (AssocImplOps) with the    *)
(* declarative requirement of Assoc.tla for EVERY source node and EVERY    *)
(* filter tuple, and checks the requirement's own laws (symmetry, filter   *)
(* monotonicity).                                                          *)
(*                                                                         *)
(* Regression switches:                                                    *)
(*   NoShadow       CreateInstance stores only the copy in the namespace   *)
(*                  of the call                                            *)
(*   ModSharedPath  ModifyInstance puts ONE object into every namespace's  *)
(*                  store; its path names the namespace of the call        *)
(*   NoPreCheck     a CreateInstance that is rejected with ALREADY_EXISTS  *)
(*                  has by then stored the copies of the other namespaces  *)
(*   SubCacheNs     (AssocImplOps) subclass lists of one namespace used    *)
(*                  for all                                                *)
(*                                                                         *)
(* FAILED write operations are part of the histories: Reject = a           *)
(* CreateInstance whose path collides with a stored instance in one of the *)
(* namespaces it would be stored in (same keys again; for AL - keyed by    *)
(* id, references not keys - the id of a stored instance with ANY ends, in *)
(* particular ends in another namespace than the stored one's).  The       *)
(* repository after a rejected CreateInstance must give the same traversal *)
(* results as before it (ImplEqualsDecl over the unchanged store).         *)
(* ModifyInstance of the (non-key) reference properties of an AL instance:  *)
(* ModifyEnds; ModEnds = "asis" is the code of the pinned tree, "fixed"    *)
(* the repaired design (all stored copies follow, missing copies are made).*)
(* Class hierarchy as state: xpar[ns] = superclass of ABX in ns ("" = no   *)
(* such class); AddClass changes it between traversals.                    *)
(***************************************************************************)
EXTENDS AssocImplOps, SequencesExt

CONSTANTS NodeU,       \* sequence of node records [ns, cls, sv, kid]
          MaxAssoc,    \* max number of association instances
          MaxMod,      \* max number of ModifyInstance calls
          CreateNs,    \* namespaces in which CreateInstance is called
          ClsU,        \* association classes that are instantiated
          AcU, RcU, RlU,  \* filter tokens quantified over ("" = not given)
          NoShadow, ModSharedPath,
          NoPreCheck,  \* regression switch, see Reject
          ModEnds,     \* ModifyInstance of reference properties: "off" (not
                       \* generated) / "asis" / "fixed", see ModifyEnds
          XParU,       \* superclasses ABX may be given by AddClass ({} = the
                       \* class is never added)
          GenDepth     \* > 0: record the calls (behaviour emission)

(*------------------- universes used by the configurations ----------------*)
(* kid = key values: nodes 3/4 (and 1/5, 2/7) are twins: same class and    *)
(* key values in different namespaces                                      *)
Nd(ns, c, sv, kid) == [ns |-> ns, cls |-> c, sv |-> sv, kid |-> kid]
NodeU4 == <<Nd(1, "N", 1, 1), Nd(1, "NSS", 2, 2), Nd(1, "M", 3, 3),
            Nd(2, "M", 4, 3)>>
NodeU5 == <<Nd(1, "N", 1, 1), Nd(1, "NSS", 2, 2), Nd(1, "M", 3, 3),
            Nd(2, "M", 4, 3), Nd(2, "N", 5, 1)>>
NodeU7 == <<Nd(1, "N", 1, 1), Nd(1, "NSS", 2, 2), Nd(1, "M", 3, 3),
            Nd(2, "M", 4, 3), Nd(2, "N", 5, 1), Nd(1, "NS", 6, 6),
            Nd(2, "NSS", 7, 2)>>
AcFull == {"", "AB", "ABS", "ABSS", "AT", "AL", "ZZ", "N"}
RcFull == {"", "N", "NS", "NSS", "M", "ZZ", "AB"}
RlFull == {"", "r1", "r2", "a", "b", "c", "zz"}
AcSmall == {"", "AB", "ABS", "ABSS", "AT", "AL", "ZZ"}
RcSmall == {"", "N", "NS", "NSS", "M"}
RlSmall == {"", "r1", "r2", "a", "b", "c"}
AcHier == {"", "AB", "ABS", "ABSS", "ABX", "ZZ"}
RlHier == {"", "r1", "r2"}
SubCacheOne == 1

VARIABLES store, hist, xpar
vars == <<store, hist, xpar>>

Nodes == DOMAIN NodeU
G == [nodes |-> NodeU, assocs |-> SetToSeq(store), xpar |-> xpar]
Groups == {a.g : a \in store}
NMod == Cardinality({a.g : a \in {b \in store : b.w # 0}})

EndChoices(c, p) ==
  {i \in Nodes : NodeU[i].cls \in Subtree(RefClass(c)[p])}
  \cup (IF Optional(c) THEN {0} ELSE {})
EndTuples(c) ==
  IF Len(Roles(c)) = 2
  THEN {<<e1, e2>> : e1 \in EndChoices(c, 1), e2 \in EndChoices(c, 2)}
  ELSE {<<e1, e2, e3>> : e1 \in EndChoices(c, 1), e2 \in EndChoices(c, 2),
                         e3 \in EndChoices(c, 3)}

Rec(op, c, ends, ns) == [op |-> op, cls |-> c, ends |-> ends, ns |-> ns]

EndNs(ends) == {NodeU[ends[p]].ns : p \in {q \in DOMAIN ends : ends[q] # 0}}
Copy(c, ends, h, g) == [cls |-> c, ends |-> ends, ns |-> h, g |-> g, w |-> 0,
                        pns |-> h, xp |-> IF c = "ABX" THEN xpar[h] ELSE ""]
Create(c, ends, ns) ==
  LET g == <<c, ends>>       \* class + keybindings (for AL: stands for id)
      homes == IF NoShadow THEN {ns} ELSE {ns} \cup EndNs(ends) IN
  /\ Cardinality(Groups) < MaxAssoc
  /\ g \notin Groups                                  \* else ALREADY_EXISTS
  /\ c = "ABX" => xpar[ns] # "" /\ EndNs(ends) = {ns}  \* one namespace
  /\ store' = store \cup {Copy(c, ends, h, g) : h \in homes}
  /\ hist' = IF GenDepth > 0 THEN Append(hist, Rec("create", c, ends, ns))
             ELSE hist
  /\ UNCHANGED xpar

(* CreateInstance(c, ends) in namespace ns whose path is the path of the    *)
(* stored instance g0 (same class; same ends = same keys, or - AL - the    *)
(* same id with any ends) in one of the namespaces it would be stored in:  *)
(* CIM_ERR_ALREADY_EXISTS, nothing stored (create_multi_namespace_instance *)
(* checks all namespaces BEFORE it stores the first copy).                 *)
(* NoPreCheck: the copies are stored one by one, the namespace of the call *)
(* last, each store refusing a duplicate (two namespaces: a copy stays in  *)
(* the other namespace when only the namespace of the call collides).      *)
(* Case distinction of a rejected create (the binding covers every case):  *)
(*   "single"        only the namespace of the call is involved            *)
(*   "all"           every involved namespace holds a copy of g0           *)
(*   "partial-call"  the namespace of the call holds one, another involved *)
(*                   namespace does not (id collision of an AL instance    *)
(*                   whose new ends reach into another namespace)          *)
(*   "partial-call-span"  ... and the new ends lie in both: an end point in *)
(*                   the namespace of the call and one in the other        *)
(*   "partial-other" only another involved namespace holds one             *)
RejCase(homes, ns, g0, ends) ==
  LET has(h) == \E a \in store : a.g = g0 /\ a.ns = h IN
  IF homes = {ns} THEN "single"
  ELSE IF \A h \in homes : has(h) THEN "all"
  ELSE IF has(ns)
       THEN IF ns \in EndNs(ends) THEN "partial-call-span" ELSE "partial-call"
       ELSE "partial-other"
Reject(c, ends, ns, g0) ==
  LET homes == {ns} \cup EndNs(ends)
      has(h) == \E a \in store : a.g = g0 /\ a.ns = h
      others == homes \ {ns} IN
  /\ g0 \in Groups /\ g0[1] = c /\ c # "ABX"
  /\ c = "AL" \/ ends = g0[2]
  /\ \E h \in homes : has(h)
  /\ store' = IF NoPreCheck /\ others # {}
              THEN store \cup {Copy(c, ends, h, g0) :
                                 h \in {o \in others : ~has(o)}}
              ELSE store
  /\ hist' = IF GenDepth > 0
             THEN Append(hist, [op |-> "reject", cls |-> c, ends |-> ends,
                                ns |-> ns, of |-> g0[2],
                                case |-> RejCase(homes, ns, g0, ends)])
             ELSE hist
  /\ UNCHANGED xpar

(* ModifyInstance(ends := e2) of the AL instance g (references are not keys: *)
(* the path stays), addressed to its copy in namespace ns.  A reference    *)
(* that is set cannot be set to NULL (refused by the mock) and an absent   *)
(* one stays absent (the mock cannot set it: KeyError, a ModifyInstance    *)
(* matter).  Case distinction ModCase (the binding covers all):    *)
(*   "same"    the namespaces involved after the change all hold a copy,   *)
(*             and every namespace that holds a copy is still involved     *)
(*   "shrink"  a namespace that holds a copy is no longer involved (a      *)
(*             cross-namespace association becomes a single-namespace one) *)
(*   "grow"    a namespace becomes involved that holds no copy             *)
(* "asis" (ModifyInstance + modify_multi_namespace_instance):              *)
(*    others = namespaces of the NEW ends other than ns;                   *)
(*    others = {}: only the copy in ns is replaced;                        *)
(*    else every namespace in others + ns must hold a copy (else           *)
(*    CIM_ERR_NOT_FOUND, nothing changed) and exactly these copies are     *)
(*    replaced by the modified instance of ns.                             *)
(*    -> "shrink" leaves a STALE copy (old ends) in the other namespace,   *)
(*       "grow" is refused.                                                *)
(* "fixed": every stored copy of g is replaced, namespaces of the new ends *)
(*    without a copy get one.                                              *)
CurOf(g, ns) == CHOOSE a \in store : a.g = g /\ a.ns = ns
ModCase(g, ns, e2) ==
  LET old == {a.ns : a \in {b \in store : b.g = g}}
      new == {ns} \cup EndNs(e2) IN
  IF new \ old # {} THEN "grow" ELSE IF old \ new # {} THEN "shrink" ELSE "same"
ModifyEnds(g, ns, e2) ==
  LET cur == CurOf(g, ns)
      has(h) == \E a \in store : a.g = g /\ a.ns = h
      others == EndNs(e2) \ {ns}
      put(a) == [a EXCEPT !.ends = e2, !.w = cur.w, !.pns = a.ns]
      refused == ModEnds = "asis" /\ \E h \in others : ~has(h)
      hit == IF ModEnds = "fixed" THEN {a \in store : a.g = g}
             ELSE {a \in store : a.g = g /\ a.ns \in others \cup {ns}}
      made == IF ModEnds = "fixed"
              THEN {[cur EXCEPT !.ends = e2, !.ns = h, !.pns = h] :
                       h \in {o \in others : ~has(o)}}
              ELSE {} IN
  /\ ModEnds # "off" /\ g[1] = "AL"
  /\ \E a \in store : a.g = g /\ a.ns = ns
  /\ e2 # cur.ends
  /\ \A p \in DOMAIN e2 : (cur.ends[p] = 0) <=> (e2[p] = 0)
  /\ store' = IF refused THEN store
              ELSE (store \ hit) \cup {put(a) : a \in hit} \cup made
  /\ hist' = IF GenDepth > 0
             THEN Append(hist, [op |-> "modifyends", cls |-> "AL", ends |-> e2,
                                ns |-> ns, of |-> g[2],
                                case |-> ModCase(g, ns, e2)])
             ELSE hist
  /\ UNCHANGED xpar

(* CreateClass / add_cimobjects of ABX as subclass of p in namespace ns    *)
AddClass(ns, p) ==
  /\ xpar[ns] = ""
  /\ xpar' = [xpar EXCEPT ![ns] = p]
  /\ hist' = IF GenDepth > 0
             THEN Append(hist, [op |-> "addclass", cls |-> "ABX", ends |-> <<>>,
                                ns |-> ns, parent |-> p])
             ELSE hist
  /\ UNCHANGED store

(* ModifyInstance(note := 1) addressed to the copy of g in namespace ns *)
Modify(g, ns) ==
  /\ NMod < MaxMod
  /\ \E a \in store : a.g = g /\ a.ns = ns /\ a.w = 0
  /\ store' = {IF a.g = g
               THEN [a EXCEPT !.w = 1,
                              !.pns = IF ModSharedPath THEN ns ELSE a.ns]
               ELSE a : a \in store}
  /\ hist' = IF GenDepth > 0 THEN Append(hist, Rec("modify", g[1], g[2], ns))
             ELSE hist
  /\ UNCHANGED xpar

Init == /\ store = {} /\ xpar = <<"", "">>
        /\ hist = IF GenDepth > 0 THEN <<[op |-> "nodes", nodes |-> NodeU]>>
                  ELSE <<>>
Next == \/ \E c \in ClsU, ns \in CreateNs : \E ends \in EndTuples(c) :
            Create(c, ends, ns)
        \/ \E a \in store : Modify(a.g, a.ns)
        \/ \E a \in store, ns \in CreateNs : \E ends \in EndTuples(a.cls) :
              Reject(a.cls, ends, ns, a.g)
        \/ \E ns \in CreateNs, p \in XParU : AddClass(ns, p)
        \/ \E a \in store : \E e2 \in EndTuples(a.cls) :
              ModifyEnds(a.g, a.ns, e2)
Spec == Init /\ [][Next]_vars

(*----------------------- Impl = declarative ------------------------------*)
(* g = the graph of the current state (evaluated once per invariant)       *)
AssocAgree(g, near, op, x, ac, rc, ro, rr) ==
  LET r == ImplAssocOp(op, g, x, ac, rc, ro, rr) IN
  IF r.k = "ok"
  THEN r.S \ {x} = AssocsVia(g, near, x, ac, rc, ro, rr) \ {x}
  ELSE r.k = "err4" /\ (AqMayErr(ac, rc, ro, rr) \/ XAbsent(g, x, ac))

RefAgreeOn(g, near, x, rc, ro, refs) ==
  \A op \in {"AN", "A"} :
     LET r == ImplRefOpOn(op, g, x, rc, refs) IN
     IF r.k = "ok"
     THEN /\ 0 \notin r.S
          /\ {g.assocs[j].g : j \in r.S} = RefsVia(near, x, rc, ro)
     ELSE r.k = "err4" /\ (RqMayErr(rc, ro) \/ XAbsent(g, x, rc))
RefAgree(g, near, x, rc, ro) ==
  RefAgreeOn(g, near, x, rc, ro, ImplRefPaths(g, x, rc, ro))

(* AssociatorNames and Associators are the same call in the code; the      *)
(* second one is only evaluated when the regression switch separates them  *)
OpsU == IF SwapIn = "" THEN {"AN"} ELSE {"AN", "A"}

(* SwapIn = "": phase 1 depends on (AssocClass, Role) only; it is evaluated *)
(* once per pair and shared by all (ResultClass, ResultRole) and by the     *)
(* reference operations with ResultClass = ac (same values as ImplAssocOp / *)
(* ImplRefOp, fewer TLC evaluations).  When phase 1 finds nothing and  *)
(* no stored instance of the AssocClass subtree touches x, both sides are   *)
(* unions over the empty set for every (ResultClass, ResultRole): skipped,  *)
(* except in the initial state where the state-independent error branch is  *)
(* evaluated for every tuple.                                               *)
ImplEqualsDecl ==
  LET g == G IN
  \A x \in Nodes :
     LET near == Touching(g, x) IN
     /\ IF SwapIn = ""
        THEN \A ac \in AcU, ro \in RlU :
               LET refs == ImplRefPaths(g, x, ac, ro)
                   nearac == {b \in near : CopyClassOk(b, ac)} IN
               /\ PathsInStore(g, x, refs)
               /\ RefAgreeOn(g, near, x, ac, ro, refs)   \* ResultClass = ac
               /\ \/ refs = {} /\ nearac = {} /\ store # {}
                  \/ \A rc \in RcU, rr \in RlU :
                       IF BadFilterClassAt(g, x, ac, rc)
                       THEN AqMayErr(ac, rc, ro, rr) \/ XAbsent(g, x, ac)
                       ELSE ImplPhase2(g, x, rc, rr, refs) \ {x}
                              = AssocsVia(g, nearac, x, "", rc, ro, rr) \ {x}
        ELSE \A ac \in AcU, rc \in RcU, ro \in RlU, rr \in RlU, op \in OpsU :
               AssocAgree(g, near, op, x, ac, rc, ro, rr)
     /\ SwapIn = "" \/ \A rc \in AcU, ro \in RlU : RefAgree(g, near, x, rc, ro)

(*--------------- laws of the requirement itself --------------------------*)
DeclSymmetric ==
  LET g == G IN
  \A x \in Nodes :
     LET near == Touching(g, x) IN
     \A ac \in AcU, ro \in RlU, rr \in RlU :
        LET S == AssocsVia(g, near, x, ac, "", ro, rr) IN
        \A y \in Nodes : (y \in S) <=> (x \in Assocs(g, y, ac, "", rr, ro))

DeclMonotone ==
  LET g == G IN
  \A x \in Nodes :
     LET near == Touching(g, x) IN
     \/ near = {} /\ store # {}      \* every set is a union over nothing
     \/ /\ \A ac \in AcU, rc \in RcU, ro \in RlU, rr \in RlU :
             LET S == AssocsVia(g, near, x, ac, rc, ro, rr) IN
             \/ S = {} /\ store # {}
             \/ /\ S \subseteq AssocsVia(g, near, x, "", rc, ro, rr)
                /\ S \subseteq AssocsVia(g, near, x, ac, "", ro, rr)
                /\ S \subseteq AssocsVia(g, near, x, ac, rc, "", rr)
                /\ S \subseteq AssocsVia(g, near, x, ac, rc, ro, "")
        /\ \A ac \in AcU, ro \in RlU :
             LET S == RefsVia(near, x, ac, ro) IN
             /\ S \subseteq RefsVia(near, x, "", ro)
             /\ S \subseteq RefsVia(near, x, ac, "")

(* class level (state independent; evaluated in the initial state only):   *)
(* the Names and the full operation of the code-shaped machine agree       *)
ClassNamesEqFull ==
  store # {} \/
  \A c \in NodeClasses, ex \in BOOLEAN :
     \A ac \in AcU, rc \in RcU, ro \in RlU, rr \in RlU :
        ImplClassAssocOp("AN", c, ex, ac, rc, ro, rr)
           = ImplClassAssocOp("A", c, ex, ac, rc, ro, rr)

GenConstraint == GenDepth = 0 \/ Len(hist) <= GenDepth + 1
=============================================================================
