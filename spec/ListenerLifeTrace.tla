-------------------------- MODULE ListenerLifeTrace --------------------------
(* X02: executions recorded from the real WBEMListener (controlled          *)
(* scheduler and real sockets) are judged by the requirement machine        *)
(* ListenerLifeReq; the sequential code-shaped prediction of                *)
(* ListenerLifeImplOps runs in lock step (impl drift only).                 *)
EXTENDS ListenerLifeImplOps, Json, IOUtils
VARIABLES tid, l, verdict, ts, ti, drifted
TraceBatch == JsonDeserialize(IOEnv.TRACE_FILE).traces
TK == INSTANCE TraceKit WITH
        TTraces <- TraceBatch,
        TInit0 <- InitState, TFails <- Fails, TApply <- Apply,
        TInv <- LAMBDA st : TRUE,
        TImpl0 <- Impl0, TImplStep <- ImplCmp
TSpec == TK!TSpec
=============================================================================
