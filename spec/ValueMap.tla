------------------------------ MODULE ValueMap ------------------------------
(***************************************************************************)
(* C20 - requirement module: DSP0004 ValueMap / Values semantics as the    *)
(* property statement words them, written declaratively.                   *)
(*                                                                         *)
(* One event = one vector                                                  *)
(*   <type limits, ValueMap entries, Values strings, values_default>       *)
(* plus everything that was observed on the object built from it           *)
(*   ctor    "ok" or the name of the exception raised by the factory       *)
(*   tv      tovalues(v) for the probed v, run-length encoded              *)
(*   tb      tobinary(s) for the probed strings                            *)
(*   items   list(items())                                                 *)
(* Fails(s, e) is the set of clauses of the statement the observation      *)
(* violates.  There is no abstract state (pure function): s is ignored.    *)
(*                                                                         *)
(* Entry      [k, lo, hi, lopen, hopen, nt]                                *)
(*   k = "S"   single value lo (= hi)                                      *)
(*   k = "R"   range; lopen / hopen say which end is open ("..5", "3..");  *)
(*             an open end has the number field 0                          *)
(*   k = "U"   the unclaimed marker ".."                                   *)
(*   k = "BAD" text outside the DSP0004 entry grammar; nt = its lexeme      *)
(*             class (BadClasses), lo / hi / lopen / hopen = the entry a    *)
(*             too lenient reader would take it for (0 / FALSE for "junk") *)
(*   nt        notation tag (dec/bin/oct/hex/oct0); irrelevant here: every *)
(*             DSP0004 notation denotes the same number                    *)
(* Numbers are integers of a *virtual* type tmin..tmax: for the 8/16-bit   *)
(* types the real numbers, for the 32/64-bit types an order- and           *)
(* successor-preserving image of the neighbourhoods of the type's anchors  *)
(* (min, 0, 2^31.., max), because TLC integers are 32 bit.  Claims only    *)
(* compares numbers and takes +1/-1 of entry bounds, so it is invariant    *)
(* under that image.                                                       *)
(*                                                                         *)
(* Freedom left by the statement (DESIGN.md Appendix A, C20) is accepted   *)
(* set-valued:                                                             *)
(*  - duplicates of the same single value: any of them                     *)
(*  - a range whose resolved bounds coincide ("5..5", "..5" after "4") may *)
(*    be treated as exact entry or as range                                *)
(*  - several ".." entries: any of them                                    *)
(*  - an open end whose neighbour is "..": resolved against the type limit *)
(*    or against the next entry behind the ".." run.  Rejecting is only    *)
(*    admissible when the entry behind the ".." run has its facing end     *)
(*    open too ("7..", "..", "..9": mutually dependent through the "..");  *)
(*    "7..", ".." at the array end or in front of a closed end is a well-  *)
(*    formed DSP0004 array and must yield a table                          *)
(*  - mutually dependent adjacent open ends ("1..", "..5"): malformed;     *)
(*    ModelError/ValueError expected, a table is tolerated (only foreign   *)
(*    exceptions and invented strings are rejected then)                   *)
(*  - reversed literal ranges, entries outside the type, ".." as the only  *)
(*    entry (forbidden by DSP0004): table or ModelError/ValueError         *)
(*  - duplicate Values strings: tobinary() is only pinned down for strings *)
(*    that occur once ("where unambiguous": any entry carrying the string  *)
(*    is accepted); items() lists EVERY entry, also those whose Values     *)
(*    string occurs more than once (values_default filling two entries)    *)
(* Values strings are compared as strings: strings that differ only in    *)
(* lexical case are different strings (TLA+ string equality).             *)
(***************************************************************************)
EXTENDS Integers, Sequences, FiniteSets

F(name, ok) == IF ok THEN {} ELSE {name}
Rng(q) == {q[i] : i \in DOMAIN q}
MinOf(S) == CHOOSE x \in S : \A y \in S : x <= y

InitState == 0

(* lexeme classes of a malformed entry (nt of an entry with k = "BAD").    *)
(* DSP0004 integerValue is US-ASCII only, one token, no white space:       *)
(*   "junk"   anything else (letters, wrong radix digits, three bounds ..) *)
(*   "udigit" a decimal number / bound written with Unicode decimal digits *)
(*            (category Nd) of which at least one is not US-ASCII          *)
(*   "nl"     a well-formed entry followed by one line feed                *)
(*   "ws"     a well-formed number / bound with leading or trailing blanks *)
(*   "under"  decimal digits grouped by "_" (Python int() literal syntax)  *)
(* Whatever the class: the pair is Malformed (below).                      *)
BadClasses == {"junk", "udigit", "nl", "ws", "under"}
Apply(s, e) == s

(* ---- the qualifier pair after defaulting and size reconciliation ------- *)
IdxEntry(j) == [k |-> "S", lo |-> j, hi |-> j, lopen |-> FALSE,
                hopen |-> FALSE, nt |-> "dec"]
(* no ValueMap qualifier: DSP0004 default = 0-based index into Values      *)
(* (e.zero = the virtual image of the number 0)                            *)
EffMap(e) == IF e.hasmap THEN e.map
             ELSE [i \in 1..Len(e.vals) |-> IdxEntry(e.zero + i - 1)]
(* values_default fills missing Values at the end, extra ones are dropped *)
EffVals(e) == [i \in 1..Len(EffMap(e)) |->
                 IF i <= Len(e.vals) THEN e.vals[i] ELSE e.dflt]

Malformed(e) ==
  \/ ~e.hasvals
  \/ \E i \in DOMAIN EffMap(e) : EffMap(e)[i].k = "BAD"
  \/ (Len(e.vals) # Len(EffMap(e)) /\ ~e.hasdflt)

(* ---- resolution of open ends ------------------------------------------- *)
(* nearest entry that is not the unclaimed marker, looking left / right    *)
(* from position j (0 resp. Len(m)+1 = array end reached)                  *)
RECURSIVE PrevNonU(_, _)
PrevNonU(m, j) == IF j = 0 \/ m[j].k # "U" THEN j ELSE PrevNonU(m, j - 1)
RECURSIVE NextNonU(_, _)
NextNonU(m, j) == IF j > Len(m) \/ m[j].k # "U" THEN j ELSE NextNonU(m, j + 1)

(* admissible lower bounds of an entry at position i whose low end is open, *)
(* decided by the neighbour i-1; {} = mutually dependent                    *)
RECURSIVE LoOpts(_, _, _)
LoOpts(m, i, tmin) ==
  IF i = 1 THEN {tmin}
  ELSE LET p == m[i - 1] IN
       IF p.k = "S" THEN {p.lo + 1}
       ELSE IF p.k = "R" /\ ~p.hopen THEN {p.hi + 1}
       ELSE IF p.k = "U" THEN {tmin} \cup LoOpts(m, i - 1, tmin)
       ELSE {}

RECURSIVE HiOpts(_, _, _)
HiOpts(m, i, tmax) ==
  IF i = Len(m) THEN {tmax}
  ELSE LET q == m[i + 1] IN
       IF q.k = "S" THEN {q.lo - 1}
       ELSE IF q.k = "R" /\ ~q.lopen THEN {q.lo - 1}
       ELSE IF q.k = "U" THEN {tmax} \cup HiOpts(m, i + 1, tmax)
       ELSE {}

Bounds(m, i, tmin, tmax) ==
  LET x == m[i] IN
  IF x.k = "R"
  THEN {<<l, h>> : l \in (IF x.lopen THEN LoOpts(m, i, tmin) ELSE {x.lo}),
                   h \in (IF x.hopen THEN HiOpts(m, i, tmax) ELSE {x.hi})}
  ELSE {<<x.lo, x.hi>>}

(* all admissible resolved tables: sequences of <<lo, hi>>, one per entry *)
RECURSIVE ResFrom(_, _, _, _)
ResFrom(m, i, tmin, tmax) ==
  IF i > Len(m) THEN {<< >>}
  ELSE {<<b>> \o r : b \in Bounds(m, i, tmin, tmax),
                     r \in ResFrom(m, i + 1, tmin, tmax)}
Resolutions(m, tmin, tmax) == ResFrom(m, 1, tmin, tmax)

(* ---- Claims ------------------------------------------------------------ *)
(* indices of the entries that may claim v under resolution rho *)
AdmIdx(m, rho, v) ==
  LET sg == {i \in DOMAIN m : m[i].k = "S" /\ m[i].lo = v}
      dg == {i \in DOMAIN m : m[i].k = "R" /\ rho[i][1] = v /\ rho[i][2] = v}
      en == {i \in DOMAIN m : m[i].k = "R" /\ rho[i][1] <= v /\ v <= rho[i][2]}
  IN IF sg # {} THEN sg \cup dg                    \* exact entry wins
     ELSE IF en # {} THEN {MinOf(en)} \cup dg      \* first enclosing range
     ELSE {i \in DOMAIN m : m[i].k = "U"}          \* unclaimed (maybe none)

Res(ok, s) == [ok |-> ok, s |-> s]
Claims(m, rho, vals, v) ==
  LET ix == AdmIdx(m, rho, v) IN
  IF ix = {} THEN {Res(FALSE, "ValueError")}
  ELSE {Res(TRUE, vals[i]) : i \in ix}

(* Claims is constant between consecutive break points; wide segments of   *)
(* equal observed result are checked at the break points only (the lemma   *)
(* SegmentLemma is model-checked in ValueMapImpl.tla)                      *)
BreakPts(m, rho) ==
  UNION {{rho[i][1] - 1, rho[i][1], rho[i][1] + 1,
          rho[i][2] - 1, rho[i][2], rho[i][2] + 1} : i \in DOMAIN m}
ProbeBP(m, rho, a, b) == {a, b} \cup {x \in BreakPts(m, rho) : a <= x /\ x <= b}
FullWidth == 300
Probe(m, rho, a, b) == IF b - a <= FullWidth THEN a..b ELSE ProbeBP(m, rho, a, b)

TvOK(m, rho, vals, e) ==
  \A j \in DOMAIN e.tv :
     LET g == e.tv[j] IN
     \A v \in Probe(m, rho, g.lo, g.hi) : Res(g.ok, g.s) \in Claims(m, rho, vals, v)

(* does the binary <<k, lo, hi>> denote entry i ? *)
BinOf(m, rho, i, b) ==
  LET x == m[i] IN
  IF x.k = "U" THEN b.k = "N"
  ELSE IF x.k = "S" THEN b.k \in {"S", "R"} /\ b.lo = x.lo /\ b.hi = x.lo
  ELSE \/ b.k = "R" /\ b.lo = rho[i][1] /\ b.hi = rho[i][2]
       \/ b.k = "S" /\ rho[i][1] = rho[i][2] /\ b.lo = rho[i][1]
       \/ b.k = "R" /\ rho[i][1] > rho[i][2] /\ b.lo > b.hi   \* empty range

Idx(vals, s) == {i \in DOMAIN vals : vals[i] = s}
Once(vals) == {i \in DOMAIN vals : Cardinality(Idx(vals, vals[i])) = 1}

TbOK(m, rho, vals, e) ==
  \A j \in DOMAIN e.tb :
     LET b == e.tb[j] IN
     IF Idx(vals, b.s) = {} THEN b.k = "E"       \* no entry: must not return
     ELSE \E i \in Idx(vals, b.s) : BinOf(m, rho, i, b)

(* items(): every item is an entry; the items of strings that occur once   *)
(* are exactly those entries, in qualifier order                           *)
RECURSIVE Filter(_, _, _)
Filter(q, i, keep) ==
  IF i > Len(q) THEN << >>
  ELSE IF q[i].s \in keep THEN <<q[i]>> \o Filter(q, i + 1, keep)
  ELSE Filter(q, i + 1, keep)
RECURSIVE IdxSeq(_, _, _)
IdxSeq(n, i, keep) ==
  IF i > n THEN << >>
  ELSE IF i \in keep THEN <<i>> \o IdxSeq(n, i + 1, keep)
  ELSE IdxSeq(n, i + 1, keep)

ItemsOK(m, rho, vals, e) ==
  LET once == Once(vals)
      ustr == {vals[i] : i \in once}
      want == IdxSeq(Len(vals), 1, once)
      got == Filter(e.items, 1, ustr)
  IN /\ \A j \in DOMAIN e.items :
          \E i \in Idx(vals, e.items[j].s) : BinOf(m, rho, i, e.items[j])
     /\ Len(got) = Len(want)
     /\ \A j \in DOMAIN want : /\ got[j].s = vals[want[j]]
                                /\ BinOf(m, rho, want[j], got[j])

(* items() lists every entry, in qualifier order (also the entries whose   *)
(* Values string occurs more than once)                                    *)
ItemsAllOK(m, rho, vals, e) ==
  /\ Len(e.items) = Len(vals)
  /\ \A j \in DOMAIN vals : /\ e.items[j].s = vals[j]
                            /\ BinOf(m, rho, j, e.items[j])

(* v maps to s  =>  v is a member of tobinary(s)  (s occurring once) *)
RoundTripOK(vals, e) ==
  LET ustr == {vals[i] : i \in Once(vals)} IN
  \A j \in DOMAIN e.tv : \A t \in DOMAIN e.tb :
     LET g == e.tv[j]  b == e.tb[t] IN
     (g.ok /\ g.s \in ustr /\ b.s = g.s) =>
        \/ b.k = "N"
        \/ b.k = "S" /\ g.lo = b.lo /\ g.hi = b.lo
        \/ b.k = "R" /\ b.lo <= g.lo /\ g.hi <= b.hi

(* ---- vectors on which rejecting is (also) admissible --------------------- *)
(* an open end next to ".." (every such array is in the universe; used to  *)
(* select vectors, not a verdict)                                          *)
OpenNextToU(m) ==
  \E i \in DOMAIN m : /\ m[i].k = "R"
                      /\ \/ m[i].lopen /\ i > 1 /\ m[i - 1].k = "U"
                         \/ m[i].hopen /\ i < Len(m) /\ m[i + 1].k = "U"
(* ... whose ".." run hides another open end facing it *)
FacingThroughU(m) ==
  \E i \in DOMAIN m :
     /\ m[i].k = "R"
     /\ \/ /\ m[i].lopen /\ i > 1 /\ m[i - 1].k = "U"
           /\ LET j == PrevNonU(m, i - 1) IN
              j >= 1 /\ (m[j].k = "BAD" \/ (m[j].k = "R" /\ m[j].hopen))
        \/ /\ m[i].hopen /\ i < Len(m) /\ m[i + 1].k = "U"
           /\ LET j == NextNonU(m, i + 1) IN
              j <= Len(m) /\ (m[j].k = "BAD" \/ (m[j].k = "R" /\ m[j].lopen))

Dubious(m, e) ==
  \/ FacingThroughU(m)
  \/ (Len(m) >= 1 /\ \A i \in DOMAIN m : m[i].k = "U")
  \/ \E i \in DOMAIN m : m[i].k = "R" /\ ~m[i].lopen /\ ~m[i].hopen
                         /\ m[i].lo > m[i].hi
  \/ \E i \in DOMAIN m : /\ m[i].k \in {"S", "R"}
                         /\ \/ ~m[i].lopen /\ (m[i].lo < e.tmin \/ m[i].lo > e.tmax)
                            \/ ~m[i].hopen /\ (m[i].hi < e.tmin \/ m[i].hi > e.tmax)

OnlyValueErrors(e) == \A j \in DOMAIN e.tv : e.tv[j].ok \/ e.tv[j].s = "ValueError"

Fails(s, e) ==
  LET m == EffMap(e)
      vals == EffVals(e)
      R == Resolutions(m, e.tmin, e.tmax)
      ok == e.ctor = "ok"
      errMV == e.ctor \in {"ModelError", "ValueError"}
  IN
  IF Malformed(e) THEN F("Malformed.RaisesModelErrorOrValueError", errMV)
  ELSE IF R = {}                   \* mutually dependent open ends
  THEN IF ~ok THEN F("Malformed.RaisesModelErrorOrValueError", errMV)
       ELSE F("Tovalues.OnlyValueError", OnlyValueErrors(e))
            \cup F("Tovalues.EqualsClaims",
                   \A j \in DOMAIN e.tv : ~e.tv[j].ok \/ e.tv[j].s \in Rng(vals))
  ELSE IF ~ok
  THEN IF Dubious(m, e) THEN F("Malformed.RaisesModelErrorOrValueError", errMV)
       ELSE {"Tovalues.DefinedForWellFormed"}
  ELSE LET tvR == {rho \in R : TvOK(m, rho, vals, e)}
           tbR == {rho \in R : TbOK(m, rho, vals, e)}
           itR == {rho \in R : ItemsOK(m, rho, vals, e)}
       IN F("Tovalues.OnlyValueError", OnlyValueErrors(e))
          \cup F("Tovalues.EqualsClaims", tvR # {})
          \cup F("Tobinary.EntryOfString", tbR # {})
          \cup F("Items.EntriesInQualifierOrder", itR # {})
          \* the object does not change by being read: every items() call
          \* lists the same entries
          \cup F("Items.SameOnEveryCall", e.items2 = e.items)
          \cup F("Items.EntriesOfRepeatedStringsListed",
                  itR = {} \/ \E rho \in itR : ItemsAllOK(m, rho, vals, e))
          \cup F("OneResolution", tvR = {} \/ tbR = {} \/ itR = {}
                                   \/ (tvR \cap tbR \cap itR) # {})
          \cup F("RoundTrip.ValueIsMemberOfTobinary", RoundTripOK(vals, e))
=============================================================================
