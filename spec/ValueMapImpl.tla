---------------------------- MODULE ValueMapImpl ----------------------------
(***************************************************************************)
(* C20 - model check: the code-shaped machine (ValueMapImplOps) equals the *)
(* declarative requirement (ValueMap) for ALL ValueMap arrays up to MaxLen *)
(* over an entry alphabet built from the points Pts of a small abstract    *)
(* integer type TMin..TMax, ALL shapes of the Values array (shorter, equal,*)
(* longer, with / without values_default, no ValueMap, no Values) and      *)
(* EVERY value v of the type.                                              *)
(*                                                                         *)
(* A state is a ValueMap array; Next appends one entry, so TLC's workers   *)
(* share the enumeration.  The invariants quantify over the shapes.        *)
(*                                                                         *)
(* Flags = Fixed is the repaired design (must hold); the Legacy* configs   *)
(* switch one place back to the pinned tree's behaviour and must FAIL.     *)
(* Emit = TRUE prints every array (vector source for the binding).         *)
(***************************************************************************)
EXTENDS ValueMapImplOps, TLC, Json

CONSTANTS TMin, TMax, Pts,     \* abstract type and the points entries use
          MaxLen,
          FixTrunc, FixGuard, FixOct0,   \* BOOLEAN, see ValueMapImplOps
          FixSkip, FixUncl,              \* BOOLEAN, see ValueMapImplOps
          FixCase, FixItems,             \* BOOLEAN: fl.vbx, fl.itl
          ItemsOnce,                     \* BOOLEAN: fl.once
          Lenient,                       \* fl.len: subset of BadClasses
          WithLex,                       \* BOOLEAN: BAD entries of every lexeme class
          Emit,                          \* BOOLEAN
          WithBad                        \* BOOLEAN: BAD / oct0 / reversed entries

VARIABLES map,     \* the ValueMap array built so far
          len      \* = Len(map) (also makes TLC print states as a conjunction,
                   \* which vlib.simulate_behaviours parses)
vars == <<map, len>>

Flags == [trunc |-> FixTrunc, guard |-> FixGuard, oct0 |-> FixOct0,
          skip |-> FixSkip, uncl |-> FixUncl, vbx |-> FixCase,
          len |-> Lenient, itl |-> FixItems,
          once |-> ItemsOnce]
LenNone == {}
LenNl == {"nl"}
LenUdigit == {"udigit"}
LenInt == {"ws", "under", "udigit"}
ASSUME Lenient \subseteq BadClasses

(* cfg files cannot contain negative numbers *)
PtsU4 == {0, 1, 3, 4, 5, 15}
PtsS4 == {-8, -7, 3, 4, 5, 7}
PtsU4s == {0, 3, 4, 15}
PtsU4t == {3, 5}
MinS4 == -8

Ent(k, lo, hi, lopen, hopen, nt) ==
  [k |-> k, lo |-> lo, hi |-> hi, lopen |-> lopen, hopen |-> hopen, nt |-> nt]

Alphabet ==
  {Ent("S", p, p, FALSE, FALSE, "dec") : p \in Pts}
  \cup {Ent("R", p[1], p[2], FALSE, FALSE, "dec") :
             p \in {q \in Pts \X Pts : q[1] <= q[2]}}
  \cup {Ent("R", 0, p, TRUE, FALSE, "dec") : p \in Pts}
  \cup {Ent("R", p, 0, FALSE, TRUE, "dec") : p \in Pts}
  \cup {Ent("U", 0, 0, TRUE, TRUE, "dec")}
  \cup (IF WithBad
        THEN {Ent("BAD", 0, 0, FALSE, FALSE, "junk"),
              Ent("S", 4, 4, FALSE, FALSE, "oct0"),
              Ent("R", 5, 3, FALSE, FALSE, "dec")}
        ELSE {})
  \* malformed entries of every other lexeme class, in every shape a too
  \* lenient reader could take them for: single, closed range, open low /
  \* high end (the offending token is the number or one of the bounds)
  \cup (IF WithLex
        THEN LET a == MinOf(Pts \ {TMin, TMax})
                 b == MinOf(Pts \ {TMin, TMax, a}) IN
             UNION {{Ent("BAD", a, a, FALSE, FALSE, c),
                     Ent("BAD", a, b, FALSE, FALSE, c),
                     Ent("BAD", 0, b, TRUE, FALSE, c),
                     Ent("BAD", a, 0, FALSE, TRUE, c)} :
                    c \in BadClasses \ {"junk"}}
        ELSE {})
HasLex(m) == \E i \in DOMAIN m : m[i].k = "BAD" /\ m[i].nt # "junk"

ValName == <<"s1", "s2", "s3", "s4", "s5", "s6", "s7", "s8", "s9", "s10">>

Vec(m, hasmap, hasvals, nq, hasdflt) ==
  [tmin |-> TMin, tmax |-> TMax, zero |-> 0, hasmap |-> hasmap, map |-> m,
   hasvals |-> hasvals, vals |-> [i \in 1..nq |-> ValName[i]],
   hasdflt |-> hasdflt, dflt |-> "dflt",
   ctor |-> "", tv |-> << >>, tb |-> << >>, items |-> << >>,
   items2 |-> << >>]

(* Values sizes tried for a ValueMap of n entries *)
Sizes(n) == {q \in {n - 2, n - 1, n, n + 1, n + 2, 2 * n + 1} : q >= 0}

Vectors(m) ==
  {Vec(m, TRUE, TRUE, q, d) : q \in Sizes(Len(m)), d \in BOOLEAN}
  \cup {Vec(m, TRUE, FALSE, 0, d) : d \in BOOLEAN}
  \cup (IF m = << >> THEN {Vec(m, FALSE, TRUE, q, d) : q \in 0..4, d \in BOOLEAN}
        ELSE {})

(* the empty string as a Values string: at any one position of the Values  *)
(* array (emp = 0: nowhere) and / or as values_default                     *)
VecE(m, nq, hasdflt, emp, dflt) ==
  [Vec(m, TRUE, TRUE, nq, hasdflt) EXCEPT
     !.vals = [i \in 1..nq |-> IF i = emp THEN "" ELSE ValName[i]],
     !.dflt = dflt]
VectorsE(m) ==
  {VecE(m, q, d, emp, df) :
     q \in 0..(Len(m) + 1),
     d \in BOOLEAN, emp \in 0..(Len(m) + 1), df \in {"dflt", ""}}

(* Values strings that differ only in lexical case: every Values array of *)
(* n-1 .. n+1 strings over three case variants of one word and another     *)
(* word, values_default a further variant / a variant in use / none        *)
CaseWords == {"ab", "AB", "Ab", "cd"}
VecC(m, vals, hasdflt, dflt) ==
  [Vec(m, TRUE, TRUE, 0, hasdflt) EXCEPT !.vals = vals, !.dflt = dflt]
VectorsC(m) ==
  {VecC(m, vals, d[1], d[2]) :
     vals \in UNION {[1..q -> CaseWords] :
                      q \in {x \in {Len(m) - 1, Len(m), Len(m) + 1} : x >= 0}},
     d \in {<<FALSE, "dflt">>, <<TRUE, "aB">>, <<TRUE, "AB">>}}
  \cup (IF m = << >>
        THEN {[VecC(m, vals, FALSE, "dflt") EXCEPT !.hasmap = FALSE] :
                vals \in UNION {[1..q -> CaseWords] : q \in 1..3}}
        ELSE {})

AllV == [j \in 1..(TMax - TMin + 1) |-> TMin + j - 1]
(* tobinary is asked for every Values string, the default, a foreign string *)
(* and case variants of Values strings that are not Values strings         *)
Queries(e) == e.vals \o <<e.dflt, "nosuch", "aB", "Cd">>

Init == map = << >> /\ len = 0
Next == /\ len < MaxLen
        /\ \E x \in Alphabet : map' = Append(map, x)
        /\ len' = len + 1
Spec == Init /\ [][Next]_vars

(* the code-shaped machine's complete observation satisfies every clause *)
ImplEqualsOn(V) ==
  \A e \in V :
     LET o == ImplEvent(e, Flags, AllV, Queries(e))
         f == Fails(0, o) IN
     \/ f = {}
     \/ /\ PrintT(<<"CX", f, [hasmap |-> e.hasmap, hasvals |-> e.hasvals,
                                nmap |-> Len(e.map), nvals |-> Len(e.vals),
                                hasdflt |-> e.hasdflt, ctor |-> o.ctor]>>)
        /\ FALSE
ImplEqualsClaims == ImplEqualsOn(Vectors(map))
(* ... also when Values strings / values_default are the empty string *)
ImplEqualsClaimsE == ImplEqualsOn(VectorsE(map))
(* ... and when Values strings differ only in lexical case *)
ImplEqualsClaimsC == ImplEqualsOn(VectorsC(map))

(* the requirement is satisfiable: the direct reading of the statement    *)
(* (first admissible resolution, first admissible claimant, every entry   *)
(* listed) passes all clauses, for well-formed vectors                    *)
Ideal(e) ==
  LET m == EffMap(e)
      vals == EffVals(e)
      R == Resolutions(m, e.tmin, e.tmax) IN
  IF Malformed(e) \/ R = {}
  THEN [e EXCEPT !.ctor = "ModelError"]
  ELSE LET rho == CHOOSE r \in R : TRUE
           bin(i) == IF m[i].k = "U" THEN Bin(vals[i], "N", 0, 0)
                     ELSE IF m[i].k = "S" THEN Bin(vals[i], "S", m[i].lo, m[i].lo)
                     ELSE Bin(vals[i], "R", rho[i][1], rho[i][2]) IN
       [e EXCEPT !.ctor = "ok",
                 !.tv = [j \in DOMAIN AllV |->
                           LET r == CHOOSE r \in Claims(m, rho, vals, AllV[j]) : TRUE IN
                           [lo |-> AllV[j], hi |-> AllV[j], ok |-> r.ok, s |-> r.s]],
                 !.tb = [j \in DOMAIN vals |-> bin(MinOf(Idx(vals, vals[j])))]
                        \o <<Bin("nosuch", "E", 0, 0)>>,
                 !.items = [i \in DOMAIN m |-> bin(i)],
                 !.items2 = [i \in DOMAIN m |-> bin(i)]]
ReqSatisfiable == \A e \in Vectors(map) : Fails(0, Ideal(e)) = {}

(* checking a segment at its break points = checking every value in it *)
SegmentLemma ==
  LET e == Vec(map, TRUE, TRUE, Len(map), FALSE)
      vals == EffVals(e) IN
  \A rho \in Resolutions(map, TMin, TMax) :
    \A a \in TMin..TMax : \A b \in a..TMax :
      \A r \in {Res(TRUE, vals[i]) : i \in DOMAIN vals} \cup {Res(FALSE, "ValueError")} :
        (\A v \in a..b : r \in Claims(map, rho, vals, v))
          <=> (\A v \in ProbeBP(map, rho, a, b) : r \in Claims(map, rho, vals, v))

EmitInv == ~Emit \/ map = << >> \/ PrintT(<<"VEC", ToJson(map)>>)
(* every array in which an open end stands next to a ".." run: all         *)
(* neighbour combinations (array end / single / closed end / facing open   *)
(* end behind the run) over the alphabet of the cfg                        *)
EmitUInv == ~Emit \/ ~OpenNextToU(map) \/ PrintT(<<"VECU", ToJson(map)>>)
(* every array with a malformed entry of a lexeme class other than "junk"  *)
EmitLexInv == ~Emit \/ ~HasLex(map) \/ PrintT(<<"VECL", ToJson(map)>>)
(* the Values arrays / values_default of VectorsC (they do not depend on   *)
(* the entries, only on the length: emitted once per length, for the array *)
(* of ".." entries); the binding combines them with the enumerated arrays  *)
EmitCaseInv ==
  \/ ~Emit
  \/ \E i \in DOMAIN map : map[i].k # "U"
  \/ \A e \in VectorsC(map) :
       PrintT(<<"VECC", ToJson([n |-> Len(map), hasmap |-> e.hasmap,
                                hasdflt |-> e.hasdflt, dflt |-> e.dflt,
                                vals |-> e.vals])>>)
=============================================================================
