\* Regression configuration: the pinned tree passes charValue tokens on
\* verbatim (quotes and escapes included).  Must violate RoundTrip.
SPECIFICATION Spec
CONSTANTS
  MaxLen = 0
  Maxlines = {20}
  Indents = {3}
  LinePos = {0}
  EndSpaces = {0}
  Avoids = {FALSE}
  Safe = TRUE
  AposKeep = TRUE
  CharRaw = TRUE
  WithChar16 = TRUE
INVARIANT RoundTrip
CHECK_DEADLOCK FALSE
