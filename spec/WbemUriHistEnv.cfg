SPECIFICATION Spec
CONSTANTS
  V <- VEnv
  MaxLen = 3
  HistFmts = {"standard", "canonical"}
  PrintFmts = {"standard", "historical", "canonical"}
  ObsSeq <- ObsAllFmts
INVARIANT HistRoundTrip
INVARIANT HistIndependent
INVARIANT HistWellFormed
CHECK_DEADLOCK FALSE
