SPECIFICATION Spec
CONSTANTS
  V <- VPrintCache
  MaxLen = 2
  HistFmts = {"standard"}
  PrintFmts = {"standard", "historical", "canonical"}
  ObsSeq <- ObsStdCanon
INVARIANT HistRoundTrip
INVARIANT HistIndependent
INVARIANT HistWellFormed
CHECK_DEADLOCK FALSE
