SPECIFICATION Spec
CONSTANTS
  DropNone = TRUE
  ObjNsIgnored = FALSE
INVARIANT ServerSawWhatCallerSupplied
INVARIANT Emit
CHECK_DEADLOCK FALSE
