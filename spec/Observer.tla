------------------------------ MODULE Observer ------------------------------
(***************************************************************************)
(* C19 - requirement machine (event style): logging, operation recorders,  *)
(* statistics and the debug flag never change what an operation returns.   *)
(*                                                                         *)
(* One event = one operation executed twice against the same scripted      *)
(* server behaviour: on a bare connection and on a connection with an      *)
(* observer configuration; outcomes are [kind, cls, val]:                  *)
(*   kind "value" | "exc";  cls = result type / exception class name;      *)
(*   val = canonical digest of the value / of the exception args           *)
(* plus what the statement says about the observers themselves:            *)
(*   stats    statistics enabled on the observed connection                *)
(*   cnt, exc_cnt   statistics snapshot for this operation name afterwards *)
(*   raw_req, wire_req, raw_reply, wire_reply   digests of last_raw_request*)
(*            / last_raw_reply and of the bytes actually exchanged         *)
(*            ("" when nothing was exchanged)                              *)
(*   pw_hits  occurrences of the password (plain or base64 credential) in  *)
(*            log records, recorder output, str(conn), repr(conn)          *)
(* The state is a real counter machine for the statistics clause.          *)
(*                                                                         *)
(* phase "operation": the event described above.                           *)
(* phase "switch_on": the event is the call that ENABLES an observer on    *)
(*   the observed connection (configure_logger for this connection or for  *)
(*   future connections followed by the construction, attaching a          *)
(*   recorder), in the order the history chose; op names the call.  The    *)
(*   bare side is the same connection left alone (nothing to fail).  "...  *)
(*   switching them on never turns a successful operation into a failing   *)
(*   one" is demanded of the switching-on call itself: it returns.  The    *)
(*   password clause holds for what the call wrote (the "Connection:" log  *)
(*   record is repr()/str() of the connection).                            *)
(***************************************************************************)
EXTENDS Naturals, Sequences, FiniteSets, TLC

F(name, holds) == IF holds THEN {} ELSE {name}

InitState == [count |-> << >>, exc |-> << >>]
Get(f, k) == IF k \in DOMAIN f THEN f[k] ELSE 0
Put(f, k, v) == [x \in DOMAIN f \cup {k} |-> IF x = k THEN v ELSE f[x]]

Raised(e) == e.obs.kind = "exc"
IsOp(e) == e.phase = "operation"

Fails(s, e) ==
     F("NonInterference.SameOutcomeAsBareConnection",
       ~IsOp(e) \/ e.obs = e.bare)
\cup F("NonInterference.SuccessNeverTurnedIntoFailure",
       ~IsOp(e) \/ e.bare.kind # "value" \/ e.obs.kind = "value")
\cup F("SwitchOn.EnablingAnObserverNeverFails",
       e.phase # "switch_on" \/ e.obs.kind = "value")
\cup F("Statistics.EveryFinishedOperationCountedOnce",
       ~IsOp(e) \/ ~e.stats \/ e.cnt = Get(s.count, e.op) + 1)
\cup F("Statistics.FailedOperationsCounted",
       ~IsOp(e) \/ ~e.stats
       \/ e.exc_cnt = Get(s.exc, e.op) + (IF Raised(e) THEN 1 ELSE 0))
\cup F("Raw.LastRawRequestEqualsBytesSent",
       e.wire_req = "" \/ e.raw_req = e.wire_req)
\cup F("Raw.LastRawReplyEqualsBytesReceived",
       e.wire_reply = "" \/ e.raw_reply = e.wire_reply)
\cup F("NoPassword.NeverInLogsRecorderStrRepr", e.pw_hits = 0)

Apply(s, e) ==
  IF IsOp(e) /\ e.stats
  THEN [count |-> Put(s.count, e.op, Get(s.count, e.op) + 1),
        exc |-> Put(s.exc, e.op,
                    Get(s.exc, e.op) + (IF Raised(e) THEN 1 ELSE 0))]
  ELSE s
=============================================================================
