------------------------- MODULE ProvDispatchImplOps -------------------------
(***************************************************************************)
(* X03 - code-shaped machine (pure operators) of                           *)
(*   pywbem_mock/_providerregistry.py  ProviderRegistry.register_provider, *)
(*                                     get_registered_provider             *)
(*   pywbem_mock/_providerdispatcher.py ProviderDispatcher.CreateInstance, *)
(*                        ModifyInstance, DeleteInstance, InvokeMethod     *)
(*   pywbem_mock/_instancewriteprovider.py / _methodprovider.py  defaults  *)
(* transcribed branch by branch, in code order.                            *)
(*                                                                         *)
(* Implementation state  st = [reg, cls, store]:                           *)
(*   reg   : (provider type, namespace, class) -> provider id, 0 = none    *)
(*           (the code's NocaseDict [namespace][classname][type])          *)
(*   cls   : classes existing per namespace,  store : instances            *)
(*                                                                         *)
(* Switches.  The three booleans select what the PINNED code does (TRUE)   *)
(* or what its documentation says (FALSE):                                 *)
(*   NsArgFormatBug    namespaces of a wrong type: the TypeError message   *)
(*                     is built with "{0|A}" -> KeyError                   *)
(*   ClassnamesAssert  provider_classnames of a wrong type: `assert`       *)
(*                     -> AssertionError instead of ValueError             *)
(*   OutOnlyUnchecked  InvokeMethod: the "output-only parameter" check     *)
(*                     reads method.qualifiers instead of the parameter's  *)
(*                     -> an OUT-only parameter reaches the provider       *)
(*   PragmaCaseSensitive  build_schema_mof compares the class names with   *)
(*                     the schema pragma file case-sensitively: classes    *)
(*                     named in another lexical case (c.anycase) cannot be *)
(*                     installed -> ValueError                             *)
(*   RecompileExisting  when one served class is missing, ALL served       *)
(*                     classes are compiled again; ModifyClass of one that *)
(*                     exists and has subclasses or instances fails        *)
(*                     -> MOFRepositoryError (repository restored); the    *)
(*                     ModifyClass goes to the default namespace           *)
(* Variant selects a realistic WRONG design (regression configurations):   *)
(*   "subclass"    lookup falls back to the provider of the superclass     *)
(*   "typeblind"   lookup ignores the provider type                        *)
(*   "nsblind"     a provider is registered in every namespace             *)
(*   "nodefaultns" namespaces=None means "all namespaces"                  *)
(*   "earlycall"   the provider is called before the property validation   *)
(*   "setupfirst"  post_register_setup runs before the registry is updated *)
(*   "setuponfail" post_register_setup also runs when registration fails   *)
(*   "swallowerr"  a CIMError raised by the provider is dropped and the      *)
(*                 default implementation runs instead                     *)
(***************************************************************************)
EXTENDS ProvDispatch, SequencesExt

CONSTANTS NsArgFormatBug, ClassnamesAssert, OutOnlyUnchecked,
          PragmaCaseSensitive, RecompileExisting, Variant

InitImpl == [reg |-> [k \in Keys |-> 0], cls |-> InitClasses, store |-> {}]

AsSeq(S) == SetToSeq(S)
NoRk == [ns |-> 0, c |-> "", k |-> 0]
NoArg == [copy |-> TRUE, names |-> "na", path |-> "na", ns |-> TRUE,
          obj |-> "na", host |-> TRUE, meth |-> "", params |-> "na",
          props |-> <<>>]

(*--------------------- ProviderRegistry.register_provider ---------------*)
RegResp(ok, exc, calls, effective) ==
  [ok |-> ok, exc |-> exc, setupcalls |-> calls, setupconn |-> TRUE,
   setupreg |-> effective]
RegErr(st, exc) ==
  <<RegResp(FALSE, exc, IF Variant = "setuponfail" THEN 1 ELSE 0, TRUE), st>>

(* the loop `for namespace in namespaces:` from position i *)
RECURSIVE RegLoop(_, _, _, _)
RegLoop(st, c, nss, i) ==
  IF i > Len(nss) THEN <<"", st>>
  ELSE LET n == nss[i]
           pc == Rng(c.pcls)
           missing == {x \in pc : Cl(n, x) \notin st.cls} IN
       IF missing # {} /\ ~c.pragma THEN <<"ValueError", st>>
       ELSE IF missing # {} /\ (~(pc \subseteq SchemaClasses) \/
                                 (PragmaCaseSensitive /\ c.anycase))
       THEN <<"ValueError", st>>      \* build_schema_mof: not in pragma file
       ELSE IF missing # {} /\ RecompileExisting /\
               \* CreateClass -> ALREADY_EXISTS -> ModifyClass, which the MOF
               \* compiler's mock connection sends to the DEFAULT namespace
               \* (the namespace is passed positionally and dropped)
               \E x \in pc : /\ Cl(n, x) \in st.cls
                              /\ \/ Cl(DefaultNs, x) \notin st.cls
                                 \/ x = "A" /\ Cl(DefaultNs, "B") \in st.cls
                                 \/ \E r \in st.store :
                                       r.ns = DefaultNs /\ r.c = x
       THEN <<"MOFRepositoryError", st>>
       ELSE RegLoop(
              [st EXCEPT
                 !.cls = @ \cup (IF missing # {} THEN {Cl(n, x) : x \in pc}
                                 ELSE {}),
                 !.reg = [k \in Keys |->
                            IF k.t = c.ptype /\ k.ns = n /\ k.c \in pc
                            THEN c.pid ELSE st.reg[k]]],
              c, nss, i + 1)

(* first offending item of the namespace list, "" if none *)
RECURSIVE NsItemsErr(_, _)
NsItemsErr(nss, i) ==
  IF i > Len(nss) THEN ""
  ELSE IF nss[i] = 0 THEN "TypeError"
  ELSE IF nss[i] \notin LiveNs THEN "ValueError"
  ELSE NsItemsErr(nss, i + 1)

ImplReg(st, c) ==
  IF c.cn = "missing" THEN RegErr(st, "TypeError")       \* AttributeError
  ELSE IF c.ptype \in PTypes /\ c.base # c.ptype THEN RegErr(st, "TypeError")
  ELSE IF c.ptype \notin PTypes THEN RegErr(st, "ValueError")
  ELSE IF c.cn = "none" THEN RegErr(st, "ValueError")
  ELSE IF c.nsarg = "int"
  THEN RegErr(st, IF NsArgFormatBug THEN "KeyError" ELSE "TypeError")
  ELSE
  LET nss0 == IF c.nsarg = "none"
              THEN (IF Variant = "nodefaultns" THEN <<1, 2>>
                    ELSE <<DefaultNs>>)
              ELSE c.nss
      ierr == NsItemsErr(nss0, 1) IN
  IF ierr # "" THEN RegErr(st, ierr)
  ELSE IF c.cn = "int" \/ NonStr \in Rng(c.pcls)
  THEN RegErr(st, IF ClassnamesAssert THEN "AssertionError" ELSE "ValueError")
  ELSE
  LET nss == IF Variant = "nsblind" THEN <<1, 2>> ELSE nss0
      lp == RegLoop(st, c, nss, 1) IN
  IF lp[1] # "" THEN RegErr(lp[2], lp[1])     \* partial registration stays
  ELSE IF c.setupbeh = "raise"
  THEN <<RegResp(FALSE, "RuntimeError", 1, Variant # "setupfirst"), lp[2]>>
  ELSE <<RegResp(TRUE, "", 1, Variant # "setupfirst"), lp[2]>>

(*------------------ ProviderRegistry.get_registered_provider ------------*)
Lookup(st, t, ns, c) ==
  LET at(tt, cc) == IF ns \in LiveNs /\ cc \in ClassTokens
                    THEN st.reg[RKey(tt, ns, cc)] ELSE 0
      other == IF t = "iw" THEN "meth" ELSE "iw" IN
  IF at(t, c) # 0 THEN at(t, c)
  ELSE IF Variant = "typeblind" THEN at(other, c)
  ELSE IF Variant = "subclass" /\ c = "B" THEN at(t, "A")
  ELSE 0

(*-------------------------- responses -----------------------------------*)
Resp(ok, code, exc, recv, arg, rk, rv, outs) ==
  [ok |-> ok, code |-> code, exc |-> exc, recv |-> recv, arg |-> arg,
   rk |-> rk, rv |-> rv, outs |-> outs]
CimErr(code, recv, arg) == Resp(FALSE, code, "CIMError", recv, arg, NoRk, 0, <<>>)
PyErr(exc, recv, arg) == Resp(FALSE, 0 - 2, exc, recv, arg, NoRk, 0, <<>>)
Okay(recv, arg, rk, rv, outs) == Resp(TRUE, 0, "", recv, arg, rk, rv, outs)

(*------------------- ProviderDispatcher.CreateInstance -------------------*)
CreateArg == [NoArg EXCEPT !.names = "class", !.path = "none", !.obj = "ok"]
(* InstanceWriteProvider.CreateInstance, reached directly or via super() *)
DefaultCreate(st, c, p, arg, kk, nokey) ==
  IF nokey THEN <<CimErr(E_INVALID_PARAMETER, p, arg), st>>
  ELSE IF Row(c.ns, c.cls, kk) \in st.store
  THEN <<CimErr(E_ALREADY_EXISTS, p, arg), st>>
  ELSE <<Okay(p, arg, Row(c.ns, c.cls, kk), 0, <<>>),
         [st EXCEPT !.store = @ \cup {Row(c.ns, c.cls, kk)}]>>

ImplCreate(st, c) ==
  LET p == Lookup(st, "iw", c.ns, c.cls)
      arg == IF p = 0 THEN NoArg ELSE CreateArg
      propbad == c.defect \in {"badprop", "wrongtype"} IN
  IF c.ns \notin LiveNs THEN <<CimErr(E_INVALID_NAMESPACE, 0, NoArg), st>>
  ELSE IF Cl(c.ns, c.cls) \notin st.cls
  THEN <<CimErr(E_INVALID_CLASS, 0, NoArg), st>>
  ELSE IF propbad /\ ~(Variant = "earlycall" /\ p # 0)
  THEN <<CimErr(E_INVALID_PARAMETER, 0, NoArg), st>>
  ELSE IF propbad THEN <<CimErr(E_INVALID_PARAMETER, p, arg), st>>
  ELSE IF p = 0 THEN DefaultCreate(st, c, 0, NoArg, c.k, c.defect = "nokey")
  ELSE IF c.beh = "cimerr" /\ Variant # "swallowerr"
  THEN <<CimErr(E_FAILED, p, arg), st>>
  ELSE IF c.beh = "pyerr" THEN <<PyErr("RuntimeError", p, arg), st>>
  ELSE LET kk == IF c.beh = "rekey" THEN 2 ELSE c.k
           d == DefaultCreate(st, c, p, arg, kk,
                              c.defect = "nokey" /\ c.beh # "rekey") IN
       IF c.beh = "badret" /\ d[1].ok
       THEN <<PyErr("AssertionError", p, arg), d[2]>>
       ELSE d

(*------------------- ProviderDispatcher.ModifyInstance -------------------*)
ImplModify(st, c) ==
  LET p == Lookup(st, "iw", c.ns, c.cls)
      props == IF c.haspl THEN Rng(c.pl) ELSE GivenProps(c)
      arg == IF p = 0 THEN NoArg
             ELSE [NoArg EXCEPT !.names = "class", !.path = "ok", !.obj = "ok",
                                !.props = AsSeq(props)]
      propbad == c.defect \in {"badprop", "wrongtype", "keychange"} IN
  IF c.defect = "clsmismatch"
  THEN <<CimErr(E_INVALID_PARAMETER, 0, NoArg), st>>
  ELSE IF c.ns \notin LiveNs THEN <<CimErr(E_INVALID_NAMESPACE, 0, NoArg), st>>
  ELSE IF Cl(c.ns, c.cls) \notin st.cls
  THEN <<CimErr(E_INVALID_CLASS, 0, NoArg), st>>
  ELSE IF Row(c.ns, c.cls, c.k) \notin st.store
  THEN <<CimErr(E_NOT_FOUND, 0, NoArg), st>>
  ELSE IF PlBad(c) THEN <<CimErr(E_INVALID_PARAMETER, 0, NoArg), st>>
  ELSE IF propbad /\ ~(Variant = "earlycall" /\ p # 0)
  THEN <<CimErr(E_INVALID_PARAMETER, 0, NoArg), st>>
  ELSE IF propbad THEN <<CimErr(E_INVALID_PARAMETER, p, arg), st>>
  ELSE IF p = 0 THEN <<Okay(0, NoArg, NoRk, 0, <<>>), st>>
  ELSE IF c.beh = "cimerr" /\ Variant # "swallowerr"
  THEN <<CimErr(E_FAILED, p, arg), st>>
  ELSE IF c.beh = "pyerr" THEN <<PyErr("RuntimeError", p, arg), st>>
  ELSE IF c.beh = "badret" THEN <<PyErr("AssertionError", p, arg), st>>
  ELSE <<Okay(p, arg, NoRk, 0, <<>>), st>>

(*------------------- ProviderDispatcher.DeleteInstance -------------------*)
ImplDelete(st, c) ==
  LET p == Lookup(st, "iw", c.ns, c.cls)
      arg == IF p = 0 THEN NoArg ELSE [NoArg EXCEPT !.obj = "ok"]
      st2 == [st EXCEPT !.store = @ \ {Row(c.ns, c.cls, c.k)}] IN
  IF c.ns \notin LiveNs THEN <<CimErr(E_INVALID_NAMESPACE, 0, NoArg), st>>
  ELSE IF Cl(c.ns, c.cls) \notin st.cls
  THEN <<CimErr(E_INVALID_CLASS, 0, NoArg), st>>
  ELSE IF Row(c.ns, c.cls, c.k) \notin st.store
  THEN <<CimErr(E_NOT_FOUND, 0, NoArg), st>>
  ELSE IF p = 0 THEN <<Okay(0, NoArg, NoRk, 0, <<>>), st2>>
  ELSE IF c.beh = "cimerr" /\ Variant # "swallowerr"
  THEN <<CimErr(E_FAILED, p, arg), st>>
  ELSE IF c.beh = "pyerr" THEN <<PyErr("RuntimeError", p, arg), st>>
  ELSE IF c.beh = "badret" THEN <<PyErr("AssertionError", p, arg), st2>>
  ELSE <<Okay(p, arg, NoRk, 0, <<>>), st2>>

(*-------------------- ProviderDispatcher.InvokeMethod --------------------*)
ImplInvoke(st, c) ==
  LET p == Lookup(st, "meth", c.ns, c.cls)
      pnames == IF c.pdefect = "omit" THEN {}
                ELSE IF c.pdefect = "outonly" THEN {"p1", "p2", "o1"}
                ELSE {"p1", "p2"}
      arg == IF p = 0 THEN NoArg
             ELSE [NoArg EXCEPT !.meth = c.meth, !.obj = "ok",
                                !.params = "nocasedict",
                                !.props = AsSeq(pnames)]
      o1 == <<[n |-> "o1", v |-> "out"]>> IN
  IF c.ns \notin LiveNs THEN <<CimErr(E_INVALID_NAMESPACE, 0, NoArg), st>>
  ELSE IF Cl(c.ns, c.cls) \notin st.cls
  THEN <<CimErr(IF c.target = "inst" THEN E_INVALID_CLASS ELSE E_NOT_FOUND,
                0, NoArg), st>>
  ELSE IF c.target = "inst" /\ Row(c.ns, c.cls, c.k) \notin st.store
  THEN <<CimErr(E_NOT_FOUND, 0, NoArg), st>>
  ELSE IF c.meth \notin MethodsOf(c.cls)
  THEN <<CimErr(E_METHOD_NOT_FOUND, 0, NoArg), st>>
  ELSE IF c.target = "class" /\ ~IsStatic(c.meth)
  THEN <<CimErr(E_INVALID_PARAMETER, 0, NoArg), st>>
  ELSE IF c.pdefect \in {"unknown", "wrongtype", "wrongarray"}
  THEN <<CimErr(E_INVALID_PARAMETER, 0, NoArg), st>>
  ELSE IF c.pdefect = "outonly" /\ ~OutOnlyUnchecked
  THEN <<CimErr(E_INVALID_PARAMETER, 0, NoArg), st>>
  ELSE IF p = 0 THEN <<CimErr(E_METHOD_NOT_FOUND, 0, NoArg), st>>
  ELSE <<(CASE c.beh \in {"seq", "mapv", "mapp"} -> Okay(p, arg, NoRk, 7, o1)
            [] c.beh = "list" -> Okay(p, arg, NoRk, 7, <<>>)
            [] c.beh = "deleg" -> CimErr(E_METHOD_NOT_FOUND, p, arg)
            [] c.beh = "cimerr" ->
                 IF Variant = "swallowerr"
                 THEN CimErr(E_METHOD_NOT_FOUND, p, arg)
                 ELSE CimErr(E_FAILED, p, arg)
            [] c.beh = "pyerr" -> PyErr("RuntimeError", p, arg)
            [] c.beh = "bad2" -> PyErr("ValueError", p, arg)
            [] OTHER -> PyErr("TypeError", p, arg)),      \* bad1 bad3 bad4
         st>>

(*------------------------------------------------------------------------*)
ImplStep(st, c) ==
  CASE c.op = "Reg" -> ImplReg(st, c)
    [] c.op = "Create" -> ImplCreate(st, c)
    [] c.op = "Modify" -> ImplModify(st, c)
    [] c.op = "Delete" -> ImplDelete(st, c)
    [] c.op = "Invoke" -> ImplInvoke(st, c)

RegDump(st) == {[t |-> k.t, ns |-> k.ns, c |-> k.c, p |-> st.reg[k]] :
                  k \in {kk \in Keys : st.reg[kk] # 0}}
=============================================================================
