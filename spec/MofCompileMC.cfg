\* intended code shape, quick tier: all sessions of <= 3 productions in the main text; exports them
SPECIFICATION Spec
CONSTANTS
  MaxProd = 3
  MaxDepth = 6
  OnlyKinds = {"qualDecl", "class", "instance", "include", "namespace", "garbage"}
  IncludeGuard = TRUE
  NsNoneCheck = TRUE
  HexBounds = TRUE
  CtxBounds = TRUE
  ValueWrapped = TRUE
  RepoWrapped = TRUE
  EmbFinally = TRUE
  RestoreOnReturn = TRUE
  EmbRestoreAll = TRUE
  SuperCheckFirst = TRUE
  AncestryWalk = TRUE
  GuardCanonical = TRUE
  RegisterAfterCreate = TRUE
  NsCachesInit = TRUE
  EmbNullChecked = TRUE
  OverflowWrapped = TRUE
  InstOffsetAll = TRUE
  OpenPrecheck = TRUE
  EmbLexerClone = TRUE
INVARIANT TypeOK
INVARIANT ImplRefinesReq
INVARIANT PositionFileOK
INVARIANT PositionLineOK
INVARIANT Reusable
PROPERTY Termination
CHECK_DEADLOCK FALSE
