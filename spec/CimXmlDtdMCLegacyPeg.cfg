SPECIFICATION Spec
CONSTANTS
  MaxLen = 4
  Variant = "peg"
INVARIANTS Agree ForeignRejected
CHECK_DEADLOCK FALSE
