\* Wrong variant (must FAIL SessionRoundTrip): compile_embedded_value restores parser.embedded_objects only on the success path; after one failed nested compile the compiler stays in embedded mode.
SPECIFICATION Spec
CONSTANTS
  KeyCaseSensitive = FALSE
  FlagIgnored = FALSE
  CacheSetDefault = FALSE
  CacheNotUpdated = FALSE
  EmbModeSticks = TRUE
  MaxKeys = 1
  MaxSteps = 6
  Emit = FALSE
INVARIANT ScopeRoundTrip
INVARIANT SessionRoundTrip
CHECK_DEADLOCK FALSE
