SPECIFICATION Spec
CONSTANTS
  K = 2
  Variant = {}
  Emit = TRUE
INVARIANTS EmitInv
CHECK_DEADLOCK FALSE
