SPECIFICATION Spec
CONSTANTS
  K = 2
  Variant = "fixed"
  Emit = TRUE
INVARIANTS EmitInv
CHECK_DEADLOCK FALSE
