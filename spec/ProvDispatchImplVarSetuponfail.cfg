\* regression: wrong design, post_register_setup also after a failed registration (must violate ImplRefinesReq)
SPECIFICATION Spec
CONSTANTS
  NsArgFormatBug = FALSE
  ClassnamesAssert = FALSE
  OutOnlyUnchecked = FALSE
  PragmaCaseSensitive = FALSE
  RecompileExisting = FALSE
  Variant = "setuponfail"
  Provs <- ProvsIw
  NsArgs <- NsArgsSmall
  SetupBehs = {"ok", "raise"}
  Targets <- TargetsSmall
  KeyU = {1}
  GenDepth = 0
  MaxStore = 1
  IwLevel = "full"
  MethLevel = "off"
INVARIANT ImplRefinesReq
CONSTRAINT StoreBound
CHECK_DEADLOCK FALSE
