----------------------------- MODULE MofCompile -----------------------------
(***************************************************************************)
(* C09: the MOF compiler is total.                                         *)
(*                                                                         *)
(* Requirement machine (event style) + the abstract input space.           *)
(*                                                                         *)
(* A compile SESSION is a small include graph of at most two files (main   *)
(* text and one include file), each a sequence of PRODUCTIONS              *)
(*     [k, d, v, a]   k  production kind                                   *)
(*                    d  defect class  none|lex|syntax|value|dependency|   *)
(*                                     repo                                *)
(*                    v  defect kind / variant inside the class            *)
(*                    a  parameter (token position class, CIM status code) *)
(* plus `good`: productions appended to the valid text that is compiled on *)
(* the same compiler object after the session (empty for most sessions;    *)
(* parts F and H), or the whole - invalid - text of that later call (part  *)
(* I).                                                                     *)
(* The harness (harness/mofgen.py) renders a session to real MOF text and  *)
(* files; TLC enumerates the sessions (Sessions below) and judges what the *)
(* real compiler did with them (Fails).                                    *)
(*                                                                         *)
(* The statement constrains, per compile call:                             *)
(*   Total            the call terminates and either succeeds or raises a  *)
(*                    MOFCompileError subclass, or OSError - the latter    *)
(*                    only when the session names a file that cannot be    *)
(*                    opened; nothing else escapes.  Which MOFCompileError *)
(*                    subclass is raised, and whether faulty MOF is        *)
(*                    rejected at all, is NOT constrained (R-sound): "ok"  *)
(*                    and every MOFCompileError are admissible for every   *)
(*                    session, also for cyclic includes.                   *)
(*   PositionInside   if the error carries a position, file/line/column    *)
(*                    lie inside one of the texts of the session           *)
(*   ReusableAfterFailure  after a failed compile, valid MOF compiled on   *)
(*                    the SAME compiler object gives the outcome and the   *)
(*                    objects a fresh compiler gives                       *)
(***************************************************************************)
EXTENDS Naturals, Sequences, FiniteSets, TLC

Rng(q) == {q[i] : i \in DOMAIN q}
F(name, holds) == IF holds THEN {} ELSE {name}
P(k, d, v, a) == [k |-> k, d |-> d, v |-> v, a |-> a]

(***************************************************************************)
(* The abstract input alphabet                                             *)
(***************************************************************************)
Kinds == {"qualDecl", "class", "instance", "include", "namespace", "garbage"}
DefectClasses == {"none", "lex", "syntax", "value", "dependency", "repo"}

\* every CIM status code pywbem defines
Codes == (1..17) \cup (20..28)

\* token-level lexical faults inserted at a position class (1 first, 2 middle,
\* 3 last) of the production's token list
LexKinds == {"illegal_char", "ctrl_char", "nonascii_ident",
             "unterminated_string", "unterminated_comment", "bad_escape",
             "hexesc_empty", "bad_binary", "bad_octal", "lone_quote",
             "illegal_after_cr", "newline_in_string"}
LexPos == 1..3
\* token mutations at a position class (first, second, middle, last but one,
\* last)
SynKinds == {"drop", "dup", "swap", "truncate"}
SynPos == 1..5

\* valid but unusual spellings (defect class none)
NoneVariants(k) ==
  CASE k = "qualDecl" -> {"plain", "hexesc_end", "hexesc_mid", "escapes",
                          "nonascii_string", "num_forms", "multistring",
                          "comments", "crlf", "kw_names", "upper_kw",
                          "array_type", "no_flavor"}
    [] k = "class"    -> {"plain", "hexesc_end", "hexesc_mid", "escapes",
                          "nonascii_string", "num_forms", "multistring",
                          "comments", "crlf", "kw_names", "upper_kw",
                          "alias", "empty_body", "no_super", "assoc",
                          "sub_of_prev"}
    [] k = "instance" -> {"plain", "hexesc_end", "hexesc_mid", "escapes",
                          "nonascii_string", "num_forms", "multistring",
                          "comments", "crlf", "upper_kw", "no_alias",
                          "emb_ok", "ref_alias", "null_values",
                          "emb_array_ok", "emb_array_one", "of_prev",
                          "emb_multiline", "emb_array_multiline"}
    [] k = "include"  -> {"inc2"}
    [] k = "namespace" -> {"same", "other", "leading_slash", "unknown_pragma",
                           "locale", "other_full"}
    [] k = "garbage"  -> {"empty", "whitespace", "comment_only"}

\* Variants that relate a production to ANOTHER production of the same text:
\*   instance of_prev    an instance of the class declared by the nearest
\*                       preceding class production of the text (of a prelude
\*                       class if there is none): inherited-element resolution
\*                       (GetClass LocalOnly=False) of a class of the session
\*   class sub_of_prev   a subclass of that class
\*   instance emb_ok / emb_array_ok / emb_array_one
\*                       valid productions that run a NESTED compile (the value
\*                       of an EmbeddedInstance property: one string, an array
\*                       of several strings, an array of one string); like an
\*                       include, the nested compile replaces and must restore
\*                       the parser's notion of the current text
\*   instance emb_multiline / emb_array_multiline
\*                       the same with nested texts of MANY LINES (the line
\*                       ends are written as \n escapes inside the string
\*                       literal, so the nested text has more lines than the
\*                       text it stands in): the nested compile counts lines
\*                       of its own text; the line count of every other text -
\*                       the enclosing one, an included one, the text of a
\*                       later compile call - starts at 1
\*   namespace other_full
\*                       switch (by pragma, inside the text) to a namespace that
\*                       holds everything the productions of the session need
\*                       (another compiler put it there) but that THIS compiler
\*                       object has never been told about: its per-namespace
\*                       caches (qualifier cache, names of known classes) start
\*                       from nothing there
\* type/value mismatches and malformed values
\*   huge_hex, huge_binary   the other number forms with thousands of digits
\*                       (converting them is unlimited, PRINTING the value in
\*                       an error message is not)
\*   null_key, array_key  an instance whose key property is NULL / whose key
\*                       property is an array: no instance path can be built
\*   emb_nonstring_value a number / boolean / array of numbers as the value of
\*                       an EmbeddedInstance property (the nested compile gets
\*                       something that is not text)
\*   emb_qual_nonstring  (class) the EmbeddedInstance qualifier re-declared
\*                       with a numeric type and used with a number
\*   real_huge_int       an integer literal too large for a float as the value
\*                       of a real32 element (the conversion overflows instead
\*                       of reporting a bad value)
ValueKinds(k) ==
  CASE k = "qualDecl" -> {"int_overflow", "huge_int", "neg_unsigned",
                          "str_for_int", "bad_datetime", "int_for_datetime",
                          "array_for_scalar", "scalar_for_array",
                          "mixed_array", "real_for_int", "int_for_bool",
                          "int_for_string", "char16_long", "real_overflow",
                          "conflicting_flavors", "huge_array_size",
                          "bool_for_int", "huge_digits", "real_huge_int",
                          "huge_hex", "huge_binary"}
    [] k = "class"    -> {"int_overflow", "huge_int", "neg_unsigned",
                          "str_for_int", "bad_datetime", "int_for_datetime",
                          "array_for_scalar", "scalar_for_array",
                          "mixed_array", "real_for_int", "int_for_bool",
                          "int_for_string", "char16_long", "real_overflow",
                          "huge_array_size", "bool_for_int", "huge_digits",
                          "qual_str_for_int", "qual_int_overflow",
                          "qual_array_for_scalar", "qual_conflicting_flavors",
                          "dup_property", "ref_default_int",
                          "undefined_alias", "real_huge_int",
                          "huge_hex", "huge_binary", "emb_qual_nonstring"}
    [] k = "instance" -> {"int_overflow", "huge_int", "neg_unsigned",
                          "str_for_int", "bad_datetime", "int_for_datetime",
                          "array_for_scalar", "scalar_for_array",
                          "mixed_array", "real_for_int", "int_for_bool",
                          "int_for_string", "char16_long", "real_overflow",
                          "bool_for_int", "huge_digits", "int_for_ref",
                          "str_for_ref",
                          "undefined_alias", "dup_property", "emb_bad_syntax",
                          "emb_class", "emb_empty", "emb_unknown_class",
                          "real_huge_int", "huge_hex", "huge_binary",
                          "null_key", "array_key", "emb_nonstring_value"}
    [] k = "namespace" -> {"nomatch_colon", "empty", "space", "withhost",
                           "withscheme", "trailing_slash", "double_slash",
                           "hexesc_end"}
    [] k = "include"  -> {"hexesc_name", "nonascii_name", "nul_name",
                          "nul_in_dir", "surrogate_name", "overlong_name",
                          "overlong_path", "below_file", "dot_name",
                          "escaped_name"}     \* = FileNameKinds
    [] OTHER -> {}

DepKinds(k) ==
  CASE k = "class"    -> {"unknown_superclass", "unknown_qualifier",
                          "unknown_refclass", "unknown_embclass",
                          "super_cycle_searchpath", "super_in_searchpath",
                          "super_self",   \* class X : X, any lexical case
                          \* <super>.mof is on the search path but declares
                          \* another class
                          "super_wrongfile_searchpath",
                          \* class C : Base; class D : C; class C : D - the
                          \* re-declaration closes a superclass cycle
                          "super_redefine_cycle"}
    [] k = "instance" -> {"unknown_class", "unknown_property",
                          "class_in_searchpath", "class_cycle_searchpath",
                          "class_wrongfile_searchpath"}
    [] k = "include"  -> {"missing", "dir", "empty_name", "self", "mutual"}
    [] OTHER -> {}

\* A class whose REF / EmbeddedInstance names an unknown class makes the
\* compiler walk over ALL elements of the class (properties and method
\* parameters) to collect the classes it depends on.  Sibling elements of
\* unusual shape stand next to the unresolved one (parameter a of the
\* productions class.dependency.unknown_refclass|unknown_embclass; 0 = none):
\*   1 emb_null        [EmbeddedInstance] without a value on a string property
\*   2 emb_self        EmbeddedInstance naming the class itself
\*   3 ref_self        a REF to the class itself
\*   4 param_unknown   the unknown class is named by a method parameter
\*   5 param_emb_null  [EmbeddedInstance] without a value on a method parameter
\*   6 emb_nonstring   EmbeddedInstance on a property that is not a string
SibShapes == 1..6
SibKinds == {"unknown_refclass", "unknown_embclass"}

\* How the parameter of an include pragma spells the path of the file (0 = the
\* plain relative or absolute path).  All spellings name the same file; the
\* spelled ones are relative paths with a redundant component:
\*   1 dot       ./<path>
\*   2 updown    <existing directory>/../<path>
\*   3 parent    ../<name of the including file's directory>/<path>
PathSpell == 1..3
SpelledIncludes == {"self", "mutual"}

\* repository operations a production of kind k performs; the repository stub
\* rejects the operation with status code a, once or always
RepoOps(k) ==
  CASE k = "qualDecl" -> {"SetQualifier"}
    [] k = "class"    -> {"CreateClass", "CreateClassNoSuper", "ModifyClass",
                          "EnumerateQualifiers"}
    [] k = "instance" -> {"GetClass", "CreateInstance", "CreateInstanceNoKey",
                          "ModifyInstance"}
    [] OTHER -> {}
\* a = status code: rejected once;  a = 100 + status code: rejected always
RepoArgs == Codes \cup {100 + c : c \in Codes}
RepoCode(p) == IF p.a >= 100 THEN p.a - 100 ELSE p.a
RepoMode(p) == IF p.a >= 100 THEN "always" ELSE "once"

GarbageLex == {"ctrl_chars", "nonascii", "nul_char", "illegal_soup"}
GarbageSyn == {"token_soup", "random_printable", "deep_braces", "only_hash",
               "unbalanced_close", "long_line", "keywords_only"}
PragmaSyn == {"noparen", "nonstring_param", "no_name", "no_hash"}

(* Optional parts.  Every production of the MOF grammar has optional parts  *)
(* (the yacc actions find the others by counting positions).  The `opt`     *)
(* variants make every optional part of a production present / absent in    *)
(* EVERY combination; parameter a is the index into the product of the      *)
(* dimensions (mixed radix, first dimension = least significant digit):     *)
(*   instance opt      qualifier list (deprecated but legal) x alias x      *)
(*                     property list (one | several | with a qualifier list)*)
(*   class opt         qualifier list x alias x superclass x features       *)
(*                     (none | one | several)                               *)
(*   class opt_prop    one property: qualifier list x (scalar | array |     *)
(*                     reference) x default value                           *)
(*   class opt_method  one method: qualifier list x parameters (none | one  *)
(*                     | several) x qualifier list on the parameter x       *)
(*                     parameter (scalar | array | reference)               *)
(*   qualDecl opt      array x default value x flavors (none | one |        *)
(*                     several) x scope elements (one | several)            *)
OptVariants(k) == CASE k = "qualDecl" -> {"opt"}
                    [] k = "class" -> {"opt", "opt_prop", "opt_method"}
                    [] k = "instance" -> {"opt"}
                    [] OTHER -> {}
OptDims(k, v) ==
  CASE k = "instance" -> <<2, 2, 3>>
    [] k = "qualDecl" -> <<2, 2, 3, 2>>
    [] k = "class" /\ v = "opt_prop" -> <<2, 3, 2>>
    [] k = "class" /\ v = "opt_method" -> <<2, 3, 2, 3>>
    [] OTHER -> <<2, 2, 2, 3>>
RECURSIVE ProdTo(_, _)
ProdTo(q, i) == IF i = 0 THEN 1 ELSE q[i] * ProdTo(q, i - 1)
OptRange(k, v) == 0..(ProdTo(OptDims(k, v), Len(OptDims(k, v))) - 1)
IsOpt(p) == p.d = "none" /\ p.v \in OptVariants(p.k)
\* i-th digit of the parameter of an opt production
OptDigit(p, i) == (p.a \div ProdTo(OptDims(p.k, p.v), i - 1))
                  % OptDims(p.k, p.v)[i]
OptProds(k) == UNION {{P(k, "none", v, a) : a \in OptRange(k, v)}
                      : v \in OptVariants(k)}
InstHasQuals(p) == p.k = "instance" /\ IsOpt(p) /\ OptDigit(p, 1) = 1
InstHasAlias(p) == p.k = "instance" /\ IsOpt(p) /\ OptDigit(p, 2) = 1

(* Lexeme classes of the FILE NAME a pragma include names (the text between *)
(* the quotes is a MOF string: every character can be spelled with an       *)
(* escape).  None of the names can be opened as a MOF file:                 *)
(*   hexesc_name     ends in a hex escape      nonascii_name  non-ASCII     *)
(*   nul_name        contains NUL (\x0)        nul_in_dir     NUL below an  *)
(*   surrogate_name  lone surrogate (\xD800)                  existing dir  *)
(*   overlong_name   one component longer than NAME_MAX                     *)
(*   overlong_path   longer than PATH_MAX                                   *)
(*   below_file      a path below a regular file (x.mof/y.mof)              *)
(*   dot_name        "." / ".." (directories)                               *)
(*   escaped_name    contains \" \t \n spelled with escapes                 *)
(* (missing, dir, empty_name: DepKinds of include)                          *)
FileNameKinds == {"hexesc_name", "nonascii_name", "nul_name", "nul_in_dir",
                  "surrogate_name", "overlong_name", "overlong_path",
                  "below_file", "dot_name", "escaped_name"}
\* names the operating system interface refuses before it looks for a file
OsRefusedNames == {"nul_name", "nul_in_dir", "surrogate_name"}

Catalog(k) ==
  {P(k, "none", v, 0) : v \in NoneVariants(k)}
  \cup OptProds(k)
  \cup (IF k = "garbage"
        THEN {P(k, "lex", v, 0) : v \in GarbageLex}
             \cup {P(k, "syntax", v, 0) : v \in GarbageSyn}
        ELSE {P(k, "lex", v, a) : v \in LexKinds, a \in LexPos}
             \cup {P(k, "syntax", v, a) : v \in SynKinds, a \in SynPos})
  \cup (IF k \in {"include", "namespace"}
        THEN {P(k, "syntax", v, 0) : v \in PragmaSyn} ELSE {})
  \cup {P(k, "value", v, 0) : v \in ValueKinds(k)}
  \cup {P(k, "dependency", v, 0) : v \in DepKinds(k)}
  \cup (IF k = "class"
        THEN {P(k, "dependency", v, a) : v \in SibKinds, a \in SibShapes}
        ELSE {})
  \cup (IF k = "include"
        THEN {P(k, "dependency", v, a) : v \in SpelledIncludes, a \in PathSpell}
             \cup {P(k, "none", "inc2", a) : a \in PathSpell}
        ELSE {})
  \cup {P(k, "repo", op, c) : op \in RepoOps(k), c \in RepoArgs}

FocusOf(kinds) == UNION {Catalog(k) : k \in kinds}
Focus == FocusOf(Kinds)

PlainOf(k) == CASE k = "namespace" -> P(k, "none", "same", 0)
                [] k = "include" -> P(k, "none", "inc2", 0)
                [] OTHER -> P(k, "none", "plain", 0)
CtxKinds == {"qualDecl", "class", "instance", "namespace"}
Ctx == {PlainOf(k) : k \in CtxKinds}
Inc2 == PlainOf("include")

\* which focus productions may stand where
MainOnly(f) == f.k = "include" /\ f.v = "inc2"
IncOnly(f) == f.k = "include" /\ f.v = "mutual"

(* The session space, as a sequence of disjoint parts (flat comprehensions: *)
(* TLC's UNION and \cup are quadratic on big sets).                         *)
(*  A(n) every focus production of the given kinds (every defect kind,      *)
(*       every valid variant, every repository rejection) at every position *)
(*       of a main text of n productions, with every choice of defect-free  *)
(*       context productions at the other positions; sessions with a        *)
(*       repository rejection are kept short (n <= 2)                       *)
(*  B    the focus inside an included file (alone, before/after another     *)
(*       production; the include alone or next to another production)       *)
(*  C    the focus in the main text after an include that returned normally *)
CtxTuples(m) ==
  CASE m = 0 -> {<< >>}
    [] m = 1 -> {<<c>> : c \in Ctx}
    [] m = 2 -> {<<c, d>> : c \in Ctx, d \in Ctx}
    [] m = 3 -> {<<c, d, e>> : c \in Ctx, d \in Ctx, e \in Ctx}
Insert(t, pos, f) == SubSeq(t, 1, pos - 1) \o <<f>> \o SubSeq(t, pos, Len(t))

SessionsA(n, kinds) ==
  {[main |-> Insert(t, pos, f),
    inc |-> IF MainOnly(f) THEN <<PlainOf("class")>> ELSE << >>,
    good |-> << >>]
   : f \in {x \in FocusOf(kinds) : ~IncOnly(x) /\ (x.d = "repo" => n <= 2)},
     pos \in 1..n, t \in CtxTuples(n - 1)}

MainsB == {<<Inc2>>, <<PlainOf("class"), Inc2>>, <<Inc2, PlainOf("instance")>>,
           <<PlainOf("namespace"), Inc2>>, <<Inc2, PlainOf("qualDecl")>>}
IncForm(f, j) == CASE j = 1 -> <<f>>
                   [] j = 2 -> <<PlainOf("class"), f>>
                   [] j = 3 -> <<f, PlainOf("class")>>
SessionsB(kinds) ==
  {[main |-> x[2], inc |-> IncForm(x[1], x[3]), good |-> << >>]
   : x \in {y \in {z \in FocusOf(kinds) : ~MainOnly(z)} \X MainsB \X (1..3)
            : y[1].d = "repo" => (y[2] = <<Inc2>> /\ y[3] = 1)}}

SessionsC(kinds) ==
  {[main |-> <<Inc2, f>>, inc |-> <<PlainOf("class")>>, good |-> << >>]
   : f \in {x \in FocusOf(kinds) : ~IncOnly(x) /\ ~MainOnly(x)}}

(*  D    nested compile, then an error: a valid production that runs a      *)
(*       nested compile (embedded value: scalar, array, array of one) and   *)
(*       after it, in the same text (D1), in the including text (D2) or in  *)
(*       a file included after it (D3: main = nested, include; the error in *)
(*       the included file), every defective focus production: the error    *)
(*       must be positioned in the text it stands in although the parser    *)
(*       and the lexer were busy with another text in between               *)
(*  E    declare, then use: every focus production of kind class (valid     *)
(*       variants, value and dependency defects, mutations) followed by an  *)
(*       instance of the class it declares (E2) or by a subclass and an     *)
(*       instance of the subclass (E3): whatever the repository accepted    *)
(*       must be usable by the rest of the compile                          *)
OfPrev == P("instance", "none", "of_prev", 0)
SubOfPrev == P("class", "none", "sub_of_prev", 0)
NestedOk == {P("instance", "none", v, 0)
             : v \in {"emb_ok", "emb_array_ok", "emb_array_one",
                      "emb_multiline", "emb_array_multiline"}}
\* the nested text has line ends
EmbLines(p) == p \in NestedOk /\ p.v \in {"emb_multiline", "emb_array_multiline"}
Helpers == NestedOk \cup {OfPrev, SubOfPrev}
ErrClasses == {"lex", "syntax", "value", "dependency"}

SessionsD(kinds) ==
  {[main |-> IF j = 1 THEN <<n, f>> ELSE IF j = 2 THEN <<Inc2, f>>
              ELSE <<n, Inc2>>,
    inc |-> IF j = 1 THEN << >> ELSE IF j = 2 THEN <<n>> ELSE <<f>>,
    good |-> << >>]
   : f \in {x \in FocusOf(kinds) : x.d \in ErrClasses /\ ~IncOnly(x)},
     n \in NestedOk, j \in 1..3}

SessionsE(kinds) ==
  {[main |-> IF j = 2 THEN <<f, OfPrev>> ELSE <<f, SubOfPrev, OfPrev>>,
    inc |-> << >>, good |-> << >>]
   : f \in {x \in FocusOf(kinds \cap {"class"}) : x.d # "repo"
                                                  /\ x \notin Helpers},
     j \in 2..3}

(*  F    failed declaration, then valid MOF that needs the class: a class   *)
(*       production that cannot be compiled (value or dependency defect),   *)
(*       and afterwards - same compiler object, the "good" call - a valid   *)
(*       production that depends on a class of that name in each of the     *)
(*       ways a production can depend on a class (REF property, Embedded-   *)
(*       Instance, REF parameter, superclass, instance of), the name spelled*)
(*       as declared / in lower case / in upper case (class names are case  *)
(*       insensitive).  A valid declaration of the class is available as    *)
(*       <name>.mof on the search path, so a fresh compiler compiles the    *)
(*       dependent production; the used one must do the same.  (Not for     *)
(*       super_self / super_redefine_cycle: there the file on the search    *)
(*       path would resolve the failing production's own superclass; part H *)
(*       covers them.)                                                      *)
(*  G    everything again in a namespace entered by pragma: the namespace   *)
(*       pragma other_full, then every qualifier/class/instance focus       *)
(*       production (valid variants, value and dependency defects)          *)
RetryClassUses == {"ref_failed", "emb_failed", "param_failed", "sub_failed"}
NameSpell == 0..2    \* as declared, lower case, upper case
Retry == {P("class", "none", u, s) : u \in RetryClassUses, s \in NameSpell}
         \cup {P("instance", "none", "of_failed", s) : s \in NameSpell}
NsFull == P("namespace", "none", "other_full", 0)

(*  H    failed declaration, then a LATER compile call names the class: a   *)
(*       class production that cannot be compiled (every value and every    *)
(*       dependency defect, also super_self and super_redefine_cycle), and  *)
(*       afterwards - in another compile call on the same compiler object   *)
(*       and repository - a production that uses a class of that name in    *)
(*       each of the ways a production can depend on a class (the five of   *)
(*       part F, and a subclass followed by an instance of the subclass),   *)
(*       the name spelled as declared / lower / upper.  Unlike part F there *)
(*       is NO valid declaration of the class anywhere (nothing on the      *)
(*       search path): whatever the failed declaration left behind in the   *)
(*       compiler or in the repository is all the later call can find.  The *)
(*       later text is therefore not "valid MOF": it may be rejected with a *)
(*       MOFCompileError (the class does not exist) or succeed (the         *)
(*       repository kept the class); only Total / PositionInside constrain  *)
(*       it, ReusableAfterFailure does not apply.                           *)
UndeclaredClassUses == {"ref_undeclared", "emb_undeclared", "param_undeclared",
                        "sub_undeclared", "subinst_undeclared"}
Later == {P("class", "none", u, s) : u \in UndeclaredClassUses, s \in NameSpell}
         \cup {P("instance", "none", "of_undeclared", s) : s \in NameSpell}
\* uses that make the repository resolve the inherited elements of the class
\* (GetClass LocalOnly=False walks the superclass chain)
ResolvesAncestry(p) == p.v \in {"of_undeclared", "subinst_undeclared"}
\* the text of the later call names a class that has no valid declaration
LaterUndeclared(ses) == \E i \in DOMAIN ses.good : ses.good[i] \in Later

(*  I    nested compile in an EARLIER call, then an error in a later call:  *)
(*       a valid text that runs a nested compile (every NestedOk variant),  *)
(*       and afterwards - another compile call on the same compiler object  *)
(*       - a text that consists of one defective focus production (every    *)
(*       lex / syntax / value / dependency defect of every kind but         *)
(*       include, whose files belong to the first text).  The later text is *)
(*       not valid MOF: only Total / PositionInside constrain the later     *)
(*       call - its error must be positioned inside the LATER text, however *)
(*       many lines the texts of earlier calls had.                         *)
LaterError(ses) == ses.good # << >> /\ ses.good[1].d \in ErrClasses
\* the text of the later call is not valid MOF (parts H and I)
LaterInvalid(ses) == LaterUndeclared(ses) \/ LaterError(ses)

SessionsI(kinds) ==
  {[main |-> <<n>>, inc |-> << >>, good |-> <<f>>]
   : f \in {x \in FocusOf(kinds) : x.d \in ErrClasses /\ x.k # "include"},
     n \in NestedOk}

SessionsF(kinds) ==
  {[main |-> <<f>>, inc |-> << >>, good |-> <<r>>]
   : f \in {x \in FocusOf(kinds \cap {"class"})
              : x.d \in {"value", "dependency"}
                /\ x.v \notin {"super_self", "super_redefine_cycle"}},
     r \in Retry}

SessionsH(kinds) ==
  {[main |-> <<f>>, inc |-> << >>, good |-> <<r>>]
   : f \in {x \in FocusOf(kinds \cap {"class"})
              : x.d \in {"value", "dependency"}},
     r \in Later}

SessionsG(kinds) ==
  {[main |-> <<NsFull, f>>, inc |-> << >>, good |-> << >>]
   : f \in {x \in FocusOf(kinds \cap {"qualDecl", "class", "instance"})
              : x.d \in {"none", "value", "dependency"}}}

SessionParts(maxprod, kinds) ==
  [i \in 1..(maxprod + 8) |->
     IF i <= maxprod THEN SessionsA(i, kinds)
     ELSE IF i = maxprod + 1 THEN SessionsB(kinds)
     ELSE IF i = maxprod + 2 THEN SessionsC(kinds)
     ELSE IF i = maxprod + 3 THEN SessionsD(kinds)
     ELSE IF i = maxprod + 4 THEN SessionsE(kinds)
     ELSE IF i = maxprod + 5 THEN SessionsF(kinds)
     ELSE IF i = maxprod + 6 THEN SessionsG(kinds)
     ELSE IF i = maxprod + 7 THEN SessionsH(kinds) ELSE SessionsI(kinds)]

AllProds(ses) == Rng(ses.main) \cup Rng(ses.inc)

(* the session names a file that cannot be opened *)
UnopenableKinds == {"missing", "dir", "empty_name"} \cup FileNameKinds
MissingFile(ses) ==
  \E p \in AllProds(ses) : p.k = "include" /\ p.v \in UnopenableKinds

MOFErrors == {"MOFParseError", "MOFDependencyError", "MOFRepositoryError"}

(* admissible outcome classes of a compile of the session (set-valued)      *)
Admissible(ses) ==
  {"ok"} \cup MOFErrors \cup (IF MissingFile(ses) THEN {"OSError"} ELSE {})

(***************************************************************************)
(* Events (one per compile call, recorded from the real code):             *)
(*  call    "setup" (valid prelude MOF, same object) | "bad" (the session) *)
(*          | "good" (valid MOF afterwards, same object)                   *)
(*  ses     the abstract session (+ api, handle chosen by the harness)     *)
(*  out     "ok" | "hang" | name of the exception type that escaped        *)
(*  mro     names of the classes in the exception type's MRO               *)
(*  haspos  the error carries a position (lineno is not None)              *)
(*  lineno, column, fileid   position; fileid 0 = no file (string input),  *)
(*          k = k-th file of the session, 99 = some other path; -1 = None  *)
(*  texts   the texts of the session: [fid, lens] = line lengths           *)
(*  digest, refout, refdigest   (good call) abstract dump of the objects   *)
(*          the valid MOF defines, and the same for a fresh compiler; for  *)
(*          the sessions of part F the fresh compiler object works on a    *)
(*          repository with the same history (what a failed compile leaves *)
(*          in the REPOSITORY is not constrained by the statement, so the  *)
(*          reference may also end in a MOFCompileError there)             *)
(***************************************************************************)
IsMOFCompileError(e) == "MOFCompileError" \in Rng(e.mro)
IsOSError(e) == "OSError" \in Rng(e.mro)

MaxOf(S) == IF S = {} THEN 0 ELSE CHOOSE x \in S : \A y \in S : y <= x

Cands(e) == {i \in DOMAIN e.texts : e.texts[i].fid = e.fileid}
LineOk(e, i) == e.lineno >= 1 /\ e.lineno <= Len(e.texts[i].lens)
ColOk(e, i) == e.column >= 0 /\ e.column <= MaxOf(Rng(e.texts[i].lens)) + 1
\* stricter reading (line and column denote one character of that line or the
\* position just behind it); reported as an observation only, see Appendix A
ColInLine(e, i) == LineOk(e, i) /\ e.column >= 0
                   /\ e.column <= e.texts[i].lens[e.lineno] + 1

InitState == [failed |-> FALSE, calls |-> 0, handle |-> "", retry |-> FALSE,
              undecl |-> FALSE]

Fails(s, e) ==
  LET positioned == IsMOFCompileError(e) /\ e.haspos IN
  F("Total.Terminates", e.out # "hang")
  \cup F("Total.NoOtherException",
         e.out \in {"ok", "hang"} \/ IsMOFCompileError(e) \/ IsOSError(e))
  \cup F("Total.OSErrorOnlyForMissingFile",
         ~IsOSError(e) \/ (e.call = "bad" /\ MissingFile(e.ses)))
  \cup F("PositionInside.File", ~positioned \/ Cands(e) # {})
  \cup F("PositionInside.Line",
         ~positioned \/ Cands(e) = {} \/ \E i \in Cands(e) : LineOk(e, i))
  \cup F("PositionInside.Column",
         ~positioned \/ ~(\E i \in Cands(e) : LineOk(e, i))
         \/ \E i \in Cands(e) : LineOk(e, i) /\ ColOk(e, i))
  \* parts H, I: the text of the later call is not valid MOF (it names a
  \* class without a valid declaration / it is a defective production); the
  \* statement promises nothing about its result, only that the call is
  \* total and that an error is positioned inside that text
  \cup (IF e.call = "good" /\ s.failed /\ s.handle # "mockapi" /\ ~s.undecl
        THEN F("Harness.ReferenceCompileOk",
               e.refout = "ok" \/ (s.retry /\ e.refout \in MOFErrors))
             \cup F("ReusableAfterFailure.Outcome", e.out = e.refout)
             \cup F("ReusableAfterFailure.Result",
                    e.out # "ok" \/ e.digest = e.refdigest)
        ELSE {})
  \cup (IF e.call = "setup"
        THEN F("Harness.PreludeCompiles", e.out = "ok" \/ ~IsMOFCompileError(e))
        ELSE {})
  \cup F("Trace.Shape", (e.call = "setup" /\ s.calls = 0)
                        \/ (e.call = "bad" /\ s.calls = 1)
                        \/ (e.call = "good" /\ s.calls = 2))

Apply(s, e) ==
  [failed |-> s.failed \/ (e.call = "bad" /\ e.out # "ok"),
   calls |-> s.calls + 1,
   handle |-> IF e.call = "bad" THEN e.ses.handle ELSE s.handle,
   \* part F: the good text depends on a class the session dealt with
   retry |-> IF e.call = "bad" THEN e.ses.good # << >> ELSE s.retry,
   undecl |-> IF e.call = "bad" THEN LaterInvalid(e.ses) ELSE s.undecl]
=============================================================================
