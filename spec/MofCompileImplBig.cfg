\* intended code shape, thorough tier: all sessions of <= 4 productions; exports them
SPECIFICATION Spec
CONSTANTS
  MaxProd = 4
  MaxDepth = 6
  IncludeGuard = TRUE
  NsNoneCheck = TRUE
  HexBounds = TRUE
  CtxBounds = TRUE
  ValueWrapped = TRUE
  RepoWrapped = TRUE
  EmbFinally = TRUE
  RestoreOnReturn = TRUE
INVARIANT TypeOK
INVARIANT ImplRefinesReq
INVARIANT PositionFileOK
INVARIANT Reusable
POSTCONDITION Export
CHECK_DEADLOCK FALSE
