----------------------- MODULE WbemServerCentralTrace -----------------------
(* X06 - trace validation for get_central_instances(): every recorded call *)
(* of the real method in a world built in pywbem_mock is judged against    *)
(* the requirement WbemServerCentral (verdicts); the code-shaped           *)
(* WbemServerCentralImplOps is evaluated on the same world and query and   *)
(* compared including multiplicities (impl drift only, never a verdict).   *)
EXTENDS WbemServerCentralImplOps, Json, IOUtils

VARIABLES tid, l, verdict, ts, ti, drifted

Count(q, r) == Cardinality({i \in DOMAIN q : q[i] = r})
ImplCmp(i, e) ==
  IF e.op # "gci" THEN <<{}, Apply(i, e)>>
  ELSE LET m == Impl(i.W, e.q) IN
       <<(IF e.res.k = m.k THEN {} ELSE {"kind"})
         \cup (IF e.res.code = m.code THEN {} ELSE {"code"})
         \cup (IF \A r \in AllRes : Count(e.res.L, r) = m.B[r] THEN {}
               ELSE {"multiplicity"}),
         i>>

TraceBatch == JsonDeserialize(IOEnv.TRACE_FILE).traces

TK == INSTANCE TraceKit WITH
        TTraces <- TraceBatch,
        TInit0 <- InitState, TFails <- Fails, TApply <- Apply,
        TInv <- LAMBDA st : TRUE,
        TImpl0 <- InitState, TImplStep <- ImplCmp
TSpec == TK!TSpec
=============================================================================
