----------------------------- MODULE WireMethod ------------------------------
(***************************************************************************)
(* C04 design model, part 2: InvokeMethod marshalling inside a HISTORY of  *)
(* calls made with argument objects the caller keeps.                      *)
(*                                                                         *)
(* Caller side: object names o in Objs, constructed once with a namespace  *)
(* or without (NoNs) and then passed to several calls; the connection's    *)
(* default namespace may be switched between calls.                        *)
(*                                                                         *)
(* Code shape (pywbem/_cim_operations.py):                                 *)
(*   _methodcall:  localobject := objectname.copy()  (CopyObject)          *)
(*                 if localobject.namespace is None:                       *)
(*                     localobject.namespace := default_namespace          *)
(*                 -> LOCALINSTANCEPATH / LOCALCLASSPATH of localobject    *)
(*       infer_type(value): the FIRST matching test of an ordered list of  *)
(*       isinstance tests decides PARAMTYPE (TypeOrder): CIMType before    *)
(*       bool / str, because Char16 is a str AND a CIMType (and CIMInt an  *)
(*       int, CIMFloat a float); a CIMParameter carries its own type.      *)
(*   intrinsic operations: namespace := objectname.namespace, else default *)
(*       (no write to the caller's object).                                *)
(* Requirement (statement of C04): the server sees the target namespace    *)
(* the caller supplied - the namespace the caller gave the object when it  *)
(* built it, else the connection default AT THE TIME OF THE CALL - and the *)
(* parameter with the CIM type the caller supplied.                        *)
(* Wrong variants that must fail: CopyObject = FALSE (the caller's object  *)
(* is normalised in place), TypeOrder = "builtin_first".                   *)
(***************************************************************************)
EXTENDS Naturals, Sequences, FiniteSets, TLC

CONSTANTS CopyObject, TypeOrder, MaxLen

NoNs == "none"
Nss == {"n1", "n2"}
Objs == {"oNone", "oN1"}                 \* as constructed by the caller
Built == [oNone |-> NoNs, oN1 |-> "n1"]

(* Python classes of a parameter value: [py: the builtin it derives from,  *)
(* cim: its CIM type if it is a CIMType, else "-"]                         *)
PyVals == {[id |-> "char16",   py |-> "str",   cim |-> "char16"],
           [id |-> "str",      py |-> "str",   cim |-> "-"],
           [id |-> "bool",     py |-> "bool",  cim |-> "-"],
           [id |-> "uint8",    py |-> "int",   cim |-> "uint8"],
           [id |-> "real32",   py |-> "float", cim |-> "real32"],
           [id |-> "datetime", py |-> "obj",   cim |-> "datetime"],
           [id |-> "ref",      py |-> "path",  cim |-> "-"]}
Styles == {"kw", "tuple", "cimparam"}

Supplied(v) == IF v.cim # "-" THEN v.cim
               ELSE CASE v.py = "str" -> "string" [] v.py = "bool" -> "boolean"
                      [] v.py = "path" -> "reference" [] OTHER -> "?"

(* infer_type: ordered isinstance tests *)
Infer(v) ==
  IF TypeOrder = "cimtype_first"
  THEN Supplied(v)
  ELSE \* builtins first: bool, str, then CIMType, ...
       CASE v.py = "bool" -> "boolean"
         [] v.py = "str" -> "string"
         [] v.cim # "-" -> v.cim
         [] v.py = "path" -> "reference"
         [] OTHER -> "?"

Steps == [k : {"invoke"}, o : Objs, v : PyVals, style : Styles]
         \cup [k : {"switch"}, d : Nss]
         \cup [k : {"intrinsic"}, o : Objs]

(* connection + caller heap *)
State0(d) == [heap |-> Built, dflt |-> d, saw |-> <<>>, exp |-> <<>>]

Do(s, st) ==
  CASE st.k = "switch" -> [s EXCEPT !.dflt = st.d]
    [] st.k = "intrinsic" ->
         LET ns == IF s.heap[st.o] # NoNs THEN s.heap[st.o] ELSE s.dflt
             ex == IF Built[st.o] # NoNs THEN Built[st.o] ELSE s.dflt
         IN [s EXCEPT !.saw = Append(@, [ns |-> ns, type |-> "-"]),
                      !.exp = Append(@, [ns |-> ex, type |-> "-"])]
    [] st.k = "invoke" ->
         LET cur == s.heap[st.o]
             ns == IF cur # NoNs THEN cur ELSE s.dflt
             heap2 == IF CopyObject THEN s.heap
                      ELSE [s.heap EXCEPT ![st.o] = ns]
             ty == IF st.style = "cimparam" THEN Supplied(st.v) ELSE Infer(st.v)
             ex == IF Built[st.o] # NoNs THEN Built[st.o] ELSE s.dflt
         IN [s EXCEPT !.heap = heap2,
                      !.saw = Append(@, [ns |-> ns, type |-> ty]),
                      !.exp = Append(@, [ns |-> ex, type |-> Supplied(st.v)])]

RECURSIVE Run(_, _)
Run(s, h) == IF h = <<>> THEN s ELSE Run(Do(s, Head(h)), Tail(h))

VARIABLES hist, d0
vars == <<hist, d0>>

Init == hist = <<>> /\ d0 \in Nss
Next == /\ Len(hist) < MaxLen
        /\ \E st \in Steps : hist' = Append(hist, st)
        /\ UNCHANGED d0
Spec == Init /\ [][Next]_vars

Final == Run(State0(d0), hist)

ServerSawWhatCallerSupplied == Final.saw = Final.exp
CallerObjectsUntouched == Final.heap = Built    \* not demanded; see cfgs

(* enumeration for the spec -> code replay: complete histories only *)
Emit == Len(hist) < MaxLen \/ PrintT(<<"MH", d0, hist>>)
(* three-step histories with a default switch in the middle *)
EmitSwitch == Len(hist) < 3 \/ hist[2].k # "switch" \/ PrintT(<<"MH", d0, hist>>)
=============================================================================
