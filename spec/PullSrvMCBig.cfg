SPECIFICATION Spec
CONSTANTS
  NObj = 3
  Ids = {1, 2}
  Nss = {1, 2}
  Maxes <- MaxesSmall
  Kinds = {1, 2}
  Toggles = TRUE
INVARIANT Inv_NothingTwice
INVARIANT Inv_NothingLost
INVARIANT Inv_ExactlyTraditional
INVARIANT Inv_ClosedNotOpen
INVARIANT Inv_OpenWereIssued
PROPERTY ClosedStaysClosed
PROPERTY Monotone
CHECK_DEADLOCK FALSE
