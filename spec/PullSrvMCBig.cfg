SPECIFICATION Spec
CONSTANTS
  NObj = 3
  Ids = {1, 2}
  Nss = {1, 2}
  Maxes <- MaxesSmall
  Kinds = {1, 2}
  Toggles = TRUE
  Srvs = {1}
  Ots <- OtsOne
  Coes <- CoesOne
INVARIANT Inv_NothingTwice
INVARIANT Inv_NothingLost
INVARIANT Inv_ExactlyTraditional
INVARIANT Inv_ClosedNotOpen
INVARIANT Inv_OpenWereIssued
PROPERTY ClosedStaysClosed
PROPERTY Monotone
PROPERTY Isolated
CHECK_DEADLOCK FALSE
