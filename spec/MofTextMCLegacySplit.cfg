\* Regression configuration: mofstr() of the pinned tree splits a word at
\* column avl_len-1 even inside an escape sequence.  Must violate RoundTrip
\* (NoSplitInEscape is not listed so that TLC reports the round trip).
SPECIFICATION Spec
CONSTANTS
  MaxLen = 3
  Maxlines = {12}
  Indents = {3}
  LinePos = {0, 8}
  EndSpaces = {0}
  Avoids = {FALSE, TRUE}
  Safe = FALSE
  AposKeep = TRUE
  CharRaw = FALSE
  WithChar16 = FALSE
INVARIANT RoundTrip
CHECK_DEADLOCK FALSE
