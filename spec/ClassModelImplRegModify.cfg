SPECIFICATION Spec
CONSTANTS
  ClassLevelPropagate = TRUE
  ParamResolve = FALSE
  OriginFromSuper = FALSE
  AllowModifyBusy = TRUE
  Parent <- Chain3
  Mode = "dyn"
  QSels = {{}}
  InstKeys = {}
  WithModify = TRUE
  AllFlags = FALSE
  GenDepth = 0
INVARIANT ImplRefinesReq
INVARIANT MappingHolds
INVARIANT GetFullOk
INVARIANT GetFilteredOk
INVARIANT EnumOk
CHECK_DEADLOCK FALSE
