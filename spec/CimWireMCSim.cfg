\* Behaviour emission (-simulate): abstract trees for the binding.
SPECIFICATION Spec
CONSTANTS
  Types = {"string", "char16", "boolean", "datetime", "reference", "uint8", "sint8", "uint16", "sint16", "uint32", "sint32", "uint64", "sint64", "real32", "real64"}
  QualTypes = {"string", "boolean", "uint32", "real64", "datetime", "char16", "sint8"}
  KeyTypes = {"string", "char16", "boolean", "datetime", "uint8", "sint64", "uint64", "real64", "numeric"}
  Shapes = {"null", "nulla", "scalar", "empty", "v", "n", "vn", "nv", "vv", "nn", "nvn", "nnv", "vnn", "nvnv"}
  StrVals <- StrValsSim
  CharVals = {"ltr", "sp", "lt", "amp", "quot", "apos", "nbsp"}
  Names = {"a", "b", "c", "d"}
  MaxEls = 12
  MaxDepth = 3
  MaxKids = 3
  MaxAttrs = 6
  Modes = {"entity", "cdata"}
  W <- WFixed
  RootKinds = {"inst", "class", "ipath", "cpath", "prop", "pval", "qual", "qdecl", "meth", "parm"}
  EmbPaths = FALSE
INVARIANT NormIdempotent
CHECK_DEADLOCK FALSE
