SPECIFICATION Spec
CONSTANTS
  InfExc = "OverflowError"
  StringSlotLax = FALSE
  RangeCheck = TRUE
  AnyCimIntAsIs = FALSE
  ArrayHeadShortcut = FALSE
  Deltas <- DeltasSmall
INVARIANT ImplWithinReq
CHECK_DEADLOCK FALSE
