SPECIFICATION Spec
CONSTANTS
  Leaks = {}
  Pinned = FALSE
  PairMode = "wide"
  Emit = TRUE
INVARIANT TypeOK
INVARIANT ImplRefinesReq
INVARIANT ClosedForm

CHECK_DEADLOCK FALSE
