\* regression: wrong design, post_register_setup before the registry update (must violate ImplRefinesReq)
SPECIFICATION Spec
CONSTANTS
  NsArgFormatBug = FALSE
  ClassnamesAssert = FALSE
  OutOnlyUnchecked = FALSE
  PragmaCaseSensitive = FALSE
  RecompileExisting = FALSE
  Variant = "setupfirst"
  Provs <- ProvsIw
  NsArgs <- NsArgsSmall
  SetupBehs = {"ok", "raise"}
  Targets <- TargetsSmall
  KeyU = {1}
  GenDepth = 0
  MaxStore = 1
  IwLevel = "full"
  MethLevel = "off"
INVARIANT ImplRefinesReq
CONSTRAINT StoreBound
CHECK_DEADLOCK FALSE
