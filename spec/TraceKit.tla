------------------------------ MODULE TraceKit ------------------------------
(***************************************************************************)
(* Generic batch trace validation (code -> spec).                          *)
(*                                                                         *)
(* A requirement machine in event style provides                           *)
(*     TInit0            initial abstract state                            *)
(*     TFails(s, e)      names of the statement's clauses violated by e    *)
(*     TApply(s, e)      abstract state after e                            *)
(*     TInv(s)           state invariant evaluated after every event       *)
(* and optionally a code-shaped machine                                    *)
(*     TImpl0, TImplStep(i, e) = <<drift set, next impl state>>            *)
(* The batch file (env TRACE_FILE) is {"meta":..., "traces":[[event..]..]}.*)
(* Every trace gets a total verdict, printed by TLC:                       *)
(*     <<"V", tid, "ok", n>>   |   <<"V", tid, "rej", i, {clauses}>>       *)
(* and <<"D", tid, i, {..}>> for the first event where the real code       *)
(* differs from the code-shaped machine (impl drift, never a violation).   *)
(* Events carry arguments and results, so each trace is a single path.     *)
(***************************************************************************)
EXTENDS Naturals, Sequences, TLC

CONSTANTS TTraces,     \* the batch: define it in the instantiating module as
                       \*   JsonDeserialize(IOEnv.TRACE_FILE).traces
                       \* (a constant-level definition there is evaluated once)
          TInit0, TFails(_, _), TApply(_, _), TInv(_),
          TImpl0, TImplStep(_, _)

VARIABLES tid, l, verdict, ts, ti, drifted
tvars == <<tid, l, verdict, ts, ti, drifted>>

Traces == TTraces

TInit == /\ tid \in 1..Len(Traces) /\ l = 1 /\ verdict = "run"
         /\ ts = TInit0 /\ ti = TImpl0 /\ drifted = FALSE

TNext ==
  /\ verdict = "run"
  /\ UNCHANGED tid
  /\ IF l > Len(Traces[tid])
     THEN /\ verdict' = "ok"
          /\ PrintT(<<"V", tid, "ok", l - 1>>)
          /\ UNCHANGED <<l, ts, ti, drifted>>
     ELSE LET e == Traces[tid][l]
              f0 == TFails(ts, e)
              fl == IF f0 # {} THEN f0
                    ELSE IF TInv(TApply(ts, e)) THEN {}
                    ELSE {"StateInvariant"} IN
          IF fl = {}
          THEN LET ds == IF drifted THEN <<{}, ti>> ELSE TImplStep(ti, e) IN
               /\ ts' = TApply(ts, e)
               /\ l' = l + 1
               /\ ti' = ds[2]
               /\ drifted' = (drifted \/ ds[1] # {})
               /\ (IF ds[1] = {} THEN TRUE ELSE PrintT(<<"D", tid, l, ds[1]>>))
               /\ UNCHANGED verdict
          ELSE /\ verdict' = "rej"
               /\ PrintT(<<"V", tid, "rej", l, fl>>)
               /\ UNCHANGED <<l, ts, ti, drifted>>

TSpec == TInit /\ [][TNext]_tvars
=============================================================================
