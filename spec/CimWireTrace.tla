---------------------------- MODULE CimWireTrace ----------------------------
(* Trace validation for C01: every event is one observation of the real    *)
(* code (one string at one position, or one object, sent through the real  *)
(* encoder and the real parser twice); CimWire!Fails is the oracle, the    *)
(* transcribed encoder / code-shaped wire model are followed for impl      *)
(* drift only.                                                             *)
EXTENDS CimWire, Json, IOUtils
VARIABLES tid, l, verdict, ts, ti, drifted
TraceBatch == JsonDeserialize(IOEnv.TRACE_FILE).traces
TK == INSTANCE TraceKit WITH
        TTraces <- TraceBatch,
        TInit0 <- InitState, TFails <- Fails, TApply <- Apply,
        TInv <- LAMBDA st : TRUE,
        TImpl0 <- 0, TImplStep <- ImplStep
TSpec == TK!TSpec
=============================================================================
