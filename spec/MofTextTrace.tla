---------------------------- MODULE MofTextTrace ----------------------------
(* Trace validation for C08: every event is one observation of the real    *)
(* code (a mofstr() call plus the compiler's reading of it, or one object  *)
(* with its tomof() text compiled back); MofText!Fails is the oracle, the  *)
(* transcribed Fold is followed for impl drift only.                       *)
EXTENDS MofText, Json, IOUtils
VARIABLES tid, l, verdict, ts, ti, drifted
TraceBatch == JsonDeserialize(IOEnv.TRACE_FILE).traces
TK == INSTANCE TraceKit WITH
        TTraces <- TraceBatch,
        TInit0 <- InitState, TFails <- Fails, TApply <- Apply,
        TInv <- LAMBDA st : TRUE,
        TImpl0 <- 0, TImplStep <- ImplStep
TSpec == TK!TSpec
=============================================================================
