\* behaviour emission: call sequences (replayed into the real code)
SPECIFICATION Spec
CONSTANTS
  PinnedDupCheck = TRUE
  PinnedDeleteCase = TRUE
  PinnedBrand = TRUE
  Variant = "code"
  WorldU <- WorldsAll
  ArgU <- ArgsAll
  GenDepth = 9
CONSTRAINT GenConstraint
CHECK_DEADLOCK FALSE
