\* behaviour emission: id collisions of the id-keyed class (all cases of RejCase)
SPECIFICATION Spec
CONSTANTS
  LegacyBreak = FALSE
  SwapIn = ""
  NoShadow = FALSE
  NoPreCheck = FALSE
  XParU = {}
  ModEnds = "off"
  ShallowSub = FALSE
  IgnoreNs = FALSE
  ModSharedPath = FALSE
  MaxMod = 0
  NodeU <- NodeU5
  MaxAssoc = 2
  CreateNs = {1, 2}
  ClsU = {"AL"}
  AcU <- AcSmall
  RcU <- RcSmall
  RlU <- RlSmall
  GenDepth = 5
CONSTRAINT GenConstraint
CHECK_DEADLOCK FALSE
