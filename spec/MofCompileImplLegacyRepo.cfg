\* regression config: unwrapped retry paths / server None (must violate ImplRefinesReq)
SPECIFICATION Spec
CONSTANTS
  MaxProd = 2
  MaxDepth = 6
  OnlyKinds = {"qualDecl"}
  IncludeGuard = TRUE
  NsNoneCheck = TRUE
  HexBounds = TRUE
  CtxBounds = TRUE
  ValueWrapped = TRUE
  RepoWrapped = FALSE
  EmbFinally = TRUE
  RestoreOnReturn = TRUE
  EmbRestoreAll = TRUE
  SuperCheckFirst = TRUE
  AncestryWalk = TRUE
  GuardCanonical = TRUE
  RegisterAfterCreate = TRUE
  NsCachesInit = TRUE
  EmbNullChecked = TRUE
  OverflowWrapped = TRUE
  InstOffsetAll = TRUE
  OpenPrecheck = TRUE
  EmbLexerClone = TRUE
INVARIANT TypeOK
INVARIANT ImplRefinesReq
INVARIANT PositionFileOK
INVARIANT Reusable

CHECK_DEADLOCK FALSE
