\* Structure: trees of <= 3 elements (thorough tier: 4, CimWireMCStructBig.cfg) (order of children, nesting depth 2, paths), few types.
SPECIFICATION Spec
CONSTANTS
  Types = {"string", "uint8", "reference"}
  QualTypes = {"boolean"}
  KeyTypes = {"string", "numeric"}
  Shapes = {"scalar", "vn"}
  StrVals <- StrValsOne
  CharVals = {"ltr"}
  Names = {"a", "b"}
  MaxEls = 3
  MaxDepth = 2
  MaxKids = 2
  MaxAttrs = 1
  Modes = {"entity", "cdata"}
  W <- WFixed
  RootKinds = {"inst", "class", "ipath"}
  EmbPaths = TRUE
INVARIANT NormIdempotent
INVARIANT ReqAcceptsNorm
INVARIANT ImplMeetsReq
CHECK_DEADLOCK FALSE
