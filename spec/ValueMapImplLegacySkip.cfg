SPECIFICATION Spec
CONSTANTS
  TMin = 0
  TMax = 15
  Pts <- PtsU4t
  MaxLen = 3
  FixTrunc = TRUE
  FixGuard = TRUE
  FixOct0 = TRUE
  FixSkip = FALSE
  FixUncl = TRUE
  FixCase = TRUE
  FixItems = TRUE
  ItemsOnce = FALSE
  Lenient <- LenNone
  WithLex = FALSE
  Emit = FALSE
  WithBad = FALSE
INVARIANT ImplEqualsClaims
CHECK_DEADLOCK FALSE
