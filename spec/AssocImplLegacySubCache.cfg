\* Regression variant: subclass lists memoised per class name without the namespace (namespace 1
\* asked first).  ImplEqualsDecl must be VIOLATED.
SPECIFICATION Spec
CONSTANTS
  LegacyBreak = FALSE
  SwapIn = ""
  NoShadow = FALSE
  NoPreCheck = FALSE
  XParU = {"AB", "ABS"}
  ModEnds = "off"
  ShallowSub = FALSE
  IgnoreNs = FALSE
  ModSharedPath = FALSE
  MaxMod = 0
  NodeU <- NodeU5
  MaxAssoc = 2
  CreateNs = {1, 2}
  ClsU = {"ABS", "ABX"}
  AcU <- AcHier
  RcU <- RcSmall
  RlU <- RlHier
  GenDepth = 0
  SubCacheNs <- SubCacheOne
INVARIANT ImplEqualsDecl
CHECK_DEADLOCK FALSE
