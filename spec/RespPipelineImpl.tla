-------------------------- MODULE RespPipelineImpl --------------------------
(***************************************************************************)
(* C02: TLC runs the code-shaped response pipeline (RespPipelineImplOps)   *)
(* stage by stage for EVERY cell = result shape x set of <= 2 applicable   *)
(* defects, and checks it against the requirement (RespPipeline):          *)
(*   ImplRefinesReq  every outcome is a value or an exception of the       *)
(*                   family of a defect that is present                    *)
(*   Terminates      every run ends (liveness)                             *)
(* Leaks = {}          the pipeline with every conversion guarded (holds)  *)
(* Leaks = PinnedLeaks the tree the suite was built against (must FAIL)    *)
(* Leaks = {one leak}  regression configurations (each must FAIL)          *)
(* With Emit = TRUE the run prints every cell once; the harness renders    *)
(* these cells to concrete HTTP responses.                                 *)
(***************************************************************************)
EXTENDS RespPipelineImplOps, FiniteSetsExt, SequencesExt

CONSTANTS Leaks,       \* subset of AllLeaks
          Pinned,      \* TRUE: use PinnedLeaks (the tree the suite was built on)
          PairMode,    \* "none" | "reps" | "wide"
          Emit         \* print the cells

LeakSet == IF Pinned THEN PinnedLeaks ELSE Leaks
ASSUME LeakSet \subseteq AllLeaks
ASSUME PairMode \in {"none", "reps", "wide"}

Def(k, site, ty, cls) == [k |-> k, site |-> site, ty |-> ty, cls |-> cls]
AllDefects == {d \in UNION {[k : {k}, site : KindTab[k].sites,
                             ty : KindTab[k].tys, cls : KindTab[k].clss]
                            : k \in Kinds} : ComboOk(d)}
Singles(shape) == {d \in AllDefects : Applicable(shape, d, FALSE)}

(* representatives used in pairs: the classes where the code has a         *)
(* conversion or an index without a guard, one or two benign ones per stage *)
RepCls(k) ==
  CASE k = "t_exc" -> {"readtimeout", "redirbad"}
    [] k = "s_401" -> {"basic"}
    [] k = "s_err" -> {"500", "204"}
    [] k = "s_cimerror" -> {"pgbad"}
    [] k = "c_type" -> {"missing", "plain"}
    [] k = "h_num" -> {"big"}
    [] k = "u_bad" -> {"surrogate"}
    [] k = "x_char" -> {"ctrl"}
    [] k = "w_form" -> {"trunc"}
    [] k = "w_enc" -> {"sjis", "utf16"}
    [] k = "f_bytes" -> {"bitflip"}
    [] k = "f_tree" -> {"dup", "del"}
    [] k = "e_env" -> {"name_wrong", "cimversion_3", "msg_multirsp"}
    [] k = "r_code" -> {"num", "alpha", "huge"}
    [] k = "r_child" -> {"insts"}
    [] k = "r_mixed" -> {"irv_err"}
    [] k = "v_num" -> {"inf", "oor", "hex", "alpha"}
    [] k = "v_bool" -> {"yes"}
    [] k = "v_dt" -> {"bad"}
    [] k = "v_c16" -> {"two"}
    [] k = "v_type" -> {"unknown", "missing"}
    [] k = "v_asize" -> {"alpha"}
    [] k = "v_null" -> {""}
    [] k = "v_shape" -> {"two_values"}
    [] k = "v_emb" -> {"illformed", "numtype"}
    [] k = "v_battr" -> {"bad"}
    [] k = "v_key" -> {"dupname", "type_bogus"}
    [] k = "v_name" -> {"propname_empty"}
    [] k = "v_meth" -> {"noret"}
    [] k = "v_nspath" -> {"nohost"}
    [] k = "v_deep" -> {"d200"}
    [] k = "o_irv" -> {"INSTANCE", "CLASS", "VALUE", "VALUE.OBJECT/c"}
    [] k = "o_struct" -> {"missing", "dup"}
    [] k = "o_pv" -> {"none"}
    [] k = "p_eos" -> {"missing_both", "bogus"}
    [] k = "p_ctx" -> {"missing"}
    [] k = "p_misc" -> {"empty"}
    [] k = "m_misc" -> {"retval_notype", "two_retvals"}
    [] OTHER -> {}
RepTys == {"", "uint8", "real32", "IRETURNVALUE", "RETURNVALUE", "ERROR",
           "resptime"}
RepSites == {"", "prop", "proparr", "key", "qdval", "qdarr", "retval",
             "outparamarr", "obj", "cls", "path", "ref", "paramarr",
             "only"}
IsRep(d) ==
  IF PairMode = "wide"
  THEN CASE d.k = "v_num" -> d.ty \in RepTys /\ d.cls \in RepCls("v_num")
         [] d.k = "o_pv" -> d.cls \in RepCls("o_pv")
         [] d.k = "h_num" -> d.cls \in RepCls("h_num")
         [] d.k = "o_het" -> FALSE
         [] OTHER -> TRUE
  ELSE d.cls \in RepCls(d.k) /\ d.ty \in RepTys /\ d.site \in RepSites

Pairs(shape) ==
  IF PairMode = "none" THEN {}
  ELSE LET reps == {d \in AllDefects : IsRep(d)} IN
       {ds \in {{a, b} : a \in reps, b \in reps} :
           Cardinality(ds) = 2 /\ WellFormedCell(shape, ds)}

CellDefs(shape) == {{}} \cup {{d} : d \in Singles(shape)} \cup Pairs(shape)

VARIABLES shape, defs, pc, out
vars == <<shape, defs, pc, out>>

Init == /\ shape \in Shapes
        /\ defs \in CellDefs(shape)
        /\ pc = 1 /\ out = "run"
        /\ Emit => PrintT(<<"CELL", shape, SetToSeq({<<d.k, d.site, d.ty, d.cls>> : d \in defs})>>)

Step == /\ out = "run" /\ pc <= Len(ImplStages)
        /\ \E r \in StageOut(LeakSet, ImplStages[pc], shape, defs) :
             IF r = "pass" THEN pc' = pc + 1 /\ out' = out
             ELSE out' = r /\ pc' = pc
        /\ UNCHANGED <<shape, defs>>
Finish == /\ out = "run" /\ pc = Len(ImplStages) + 1
          /\ out' = "value" /\ UNCHANGED <<shape, defs, pc>>
Next == Step \/ Finish
Spec == Init /\ [][Next]_vars /\ WF_vars(Next)

TypeOK == /\ WellFormedCell(shape, defs)
          /\ pc \in 1..(Len(ImplStages) + 1)
(* C02 on the modelled code *)
ImplRefinesReq == out # "run" => OutcomeAdmissible(out, defs)
(* the stepwise machine and the closed form used by the trace module agree *)
ClosedForm == out # "run" => out \in ImplOutcomes(LeakSet, shape, defs)
(* no stage is stuck: a running pipeline can always move                    *)
NoStuckStage == out = "run" => ENABLED Next
Terminates == <>(out # "run")
=============================================================================
