\* thorough: pinned shape, HTTP only, 2 senders
SPECIFICATION Spec
CONSTANTS
  Cfg = {"http"}
  Envs <- EnvsHttp
  Senders = {"s1", "s2"}
  NInd = 1
  MaxQ = 1
  MaxOps = 3
  InitCbs <- Cbs1
  AddCbs = {2}
  FailCleanup = "code"
  CloseOnCertFail = FALSE
  ClearRobust = FALSE
  StopGuard = TRUE
  DupCheck = TRUE
  FailStopsDelivery = TRUE
INVARIANT StartFailHolds
INVARIANT OtherHolds
PROPERTY MainTerminates
CHECK_DEADLOCK FALSE
