SPECIFICATION Spec
CONSTANTS
  Big = FALSE
  HashNameCaseSensitive = FALSE
  DictNoLenCheck = TRUE
  DictOrdered = FALSE
  EqNameCasefold = FALSE
  DictGetLookup = FALSE
  MCKinds <- Kinds
INVARIANT AbsWellFormed
INVARIANT AbsSymmetric
INVARIANT AbsReflexive
INVARIANT AbsSandwich
INVARIANT AbsHashLawful
INVARIANT AbsIgnoresCaseAndOrder
INVARIANT AbsSensitive
INVARIANT ImplAgrees
INVARIANT ImplSymmetric
INVARIANT ImplIsKernel
INVARIANT ImplEqImpliesHash
INVARIANT ImplIgnoresCaseAndOrder
CHECK_DEADLOCK FALSE
