SPECIFICATION TSpec
CONSTANTS
  Variant = "code"
  PinnedAssert = TRUE
CHECK_DEADLOCK FALSE
