SPECIFICATION Spec
CONSTANTS
  ClassLevelPropagate = TRUE
  ParamResolve = FALSE
  OriginFromSuper = FALSE
  AllowModifyBusy = FALSE
  Parent <- TwoRoots
  Mode = "dyn"
  QSels = {{}}
  InstKeys = {1}
  WithModify = TRUE
  AllFlags = FALSE
  GenDepth = 0
INVARIANT ImplRefinesReq
INVARIANT MappingHolds
INVARIANT GetFullOk
INVARIANT GetFilteredOk
INVARIANT EnumOk
CHECK_DEADLOCK FALSE
