SPECIFICATION Spec
CONSTANTS
  Leaks = {"RespTimeInt"}
  Pinned = FALSE
  PairMode = "none"
  Emit = FALSE
INVARIANT TypeOK
INVARIANT ImplRefinesReq
INVARIANT ClosedForm

CHECK_DEADLOCK FALSE
