\* behaviour emission: AddClass of ABX (per namespace, two possible superclasses) between creates
SPECIFICATION Spec
CONSTANTS
  LegacyBreak = FALSE
  SwapIn = ""
  NoShadow = FALSE
  NoPreCheck = FALSE
  XParU = {"AB", "ABS"}
  ModEnds = "off"
  ShallowSub = FALSE
  IgnoreNs = FALSE
  ModSharedPath = FALSE
  MaxMod = 0
  NodeU <- NodeU5
  MaxAssoc = 4
  CreateNs = {1, 2}
  ClsU = {"ABS", "ABX"}
  AcU <- AcHier
  RcU <- RcSmall
  RlU <- RlHier
  GenDepth = 6
CONSTRAINT GenConstraint
CHECK_DEADLOCK FALSE
