SPECIFICATION Spec
CONSTANTS
  InfExc = "ValueError"
  StringSlotLax = FALSE
  RangeCheck = TRUE
  AnyCimIntAsIs = FALSE
  ArrayHeadShortcut = TRUE
  Deltas <- DeltasSmall
INVARIANT ImplWithinReq
INVARIANT ArrImplWithinReq
CHECK_DEADLOCK FALSE
