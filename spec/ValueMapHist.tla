---------------------------- MODULE ValueMapHist ----------------------------
(***************************************************************************)
(* C20 - requirement machine for HISTORIES of value mappings created from  *)
(* one class object.                                                       *)
(*                                                                         *)
(* The statement defines what a ValueMapping does as a function of the     *)
(* element's ValueMap / Values qualifiers (as declared in the class) and   *)
(* of values_default.  Nothing else is an input: in particular not the     *)
(* value mappings that were created from the same class object before      *)
(* (a caller that keeps the class, a connection that caches it).  So       *)
(*   - every creation is judged by the single-vector requirement           *)
(*     (ValueMap!Fails) against the qualifiers AS DECLARED, and            *)
(*   - the class object is an input only: after a creation its qualifiers  *)
(*     are what was declared (History.ClassObjectUnchanged).               *)
(*                                                                         *)
(* Events (all with the same fields, JSON monomorphic):                    *)
(*   op = "Declare"  decl = <<element, ...>>: the class as the caller      *)
(*                   built it; element = [tmin, tmax, zero, hasmap, map,   *)
(*                   maptext, hasvals, vals] (map: abstract entries,       *)
(*                   maptext: the entry texts)                             *)
(*   op = "Create"   el = index of the element, hasdflt / dflt =           *)
(*                   values_default, ctor / tv / tb / items = what was     *)
(*                   observed on the new object (as in ValueMap.tla),      *)
(*                   after = <<[hasmap, maptext, hasvals, vals], ...>>:    *)
(*                   the qualifiers read from the class object afterwards  *)
(*                   judgeobj = FALSE: `after` is not judged (used to get  *)
(*                   the verdict on what the later creations DO for a      *)
(*                   history already rejected because of `after`)          *)
(* Abstract state = the declared class (<< >> before Declare).             *)
(***************************************************************************)
EXTENDS ValueMapImplOps

HInit == << >>

HApply(s, e) == IF e.op = "Declare" THEN e.decl ELSE s

(* the single vector a creation stands for: declared qualifiers + this     *)
(* call's values_default + this call's observation                         *)
VecOf(d, e) ==
  [tmin |-> d.tmin, tmax |-> d.tmax, zero |-> d.zero,
   hasmap |-> d.hasmap, map |-> d.map, hasvals |-> d.hasvals, vals |-> d.vals,
   hasdflt |-> e.hasdflt, dflt |-> e.dflt,
   ctor |-> e.ctor, tv |-> e.tv, tb |-> e.tb, items |-> e.items,
   items2 |-> e.items2]

SameQuals(d, a) ==
  /\ a.hasmap = d.hasmap /\ a.hasvals = d.hasvals
  /\ a.maptext = d.maptext /\ a.vals = d.vals

HFails(s, e) ==
  IF e.op = "Declare" THEN F("History.DeclareOnce", s = << >>)
  ELSE IF e.op # "Create" \/ e.el \notin DOMAIN s
  THEN {"History.UNCLASSIFIED"}
  ELSE Fails(0, VecOf(s[e.el], e))
       \cup F("History.ClassObjectUnchanged",
              \/ ~e.judgeobj
              \/ /\ Len(e.after) = Len(s)
                 /\ \A i \in DOMAIN s : SameQuals(s[i], e.after[i]))
=============================================================================
