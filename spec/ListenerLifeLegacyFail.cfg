\* MUST FAIL: start() without the outer `except Exception` cleanup (before pywbem 1.9): certificate failure leaves the callback thread running
SPECIFICATION Spec
CONSTANTS
  Cfg = {"https"}
  Envs <- EnvsCertOnly
  Senders = {"s2"}
  NInd = 2
  MaxQ = 1
  MaxOps = 2
  InitCbs <- Cbs1
  AddCbs = {2}
  FailCleanup = "none"
  CloseOnCertFail = TRUE
  ClearRobust = FALSE
  StopGuard = TRUE
  DupCheck = TRUE
  FailStopsDelivery = TRUE
INVARIANT StartFailHolds
INVARIANT OtherHolds
PROPERTY MainTerminates
CHECK_DEADLOCK FALSE
